package kcpcore

import (
	"encoding/binary"
	"fmt"
	"strings"

	kcp "github.com/xtaci/kcp-go/v5"
	"verif/harness/internal/hx"
)

// ---------------------------------------------------------------------------------------------
// timed simulation: both endpoints driven session-style (flush at the returned interval) or by
// Update/Check, datagrams delivered after a one-way delay, per-datagram loss decided by a mask.

type pkt struct {
	at   uint32 // arrival time (relative ms since start)
	data []byte
}

type timed struct {
	w                 *world
	t0                uint32
	rel               uint32 // ms since start
	qAB, qBA          []pkt
	nextFlush         [2]uint32
	useUpdate         bool
	delay             uint32
	lose              func(from *endpoint, p []byte) bool
	readerOn          [2]bool
	newWhileThrottled int
}

func (t *timed) ep(i int) *endpoint {
	if i == 0 {
		return t.w.a
	}
	return t.w.b
}

// collect moves freshly routed datagrams from the world's queues into the timed queues.
func (t *timed) collect() {
	w := t.w
	for _, p := range w.netAB {
		if t.lose == nil || !t.lose(w.a, p) {
			t.qAB = append(t.qAB, pkt{t.rel + t.delay, p})
		} else {
			w.o.Count("timed:lost")
		}
	}
	for _, p := range w.netBA {
		if t.lose == nil || !t.lose(w.b, p) {
			t.qBA = append(t.qBA, pkt{t.rel + t.delay, p})
		} else {
			w.o.Count("timed:lost")
		}
	}
	w.netAB, w.netBA = nil, nil
}

// tick processes everything due at the current instant.
func (t *timed) tick() {
	w := t.w
	w.now = t.t0 + t.rel
	for len(t.qAB) > 0 && t.qAB[0].at <= t.rel && !w.aborted {
		p := t.qAB[0]
		t.qAB = t.qAB[1:]
		w.input(w.b, p.data, true, false)
		t.collect()
	}
	for len(t.qBA) > 0 && t.qBA[0].at <= t.rel && !w.aborted {
		p := t.qBA[0]
		t.qBA = t.qBA[1:]
		w.input(w.a, p.data, true, false)
		t.collect()
	}
	for i := 0; i < 2 && !w.aborted; i++ {
		e := t.ep(i)
		if t.readerOn[i] {
			w.recvAll(e)
		}
		if t.rel >= t.nextFlush[i] {
			if t.useUpdate {
				w.update(e)
				c := w.check(e)
				d := c - w.now
				if d == 0 || d > 5000 {
					d = 1
				}
				t.nextFlush[i] = t.rel + d
			} else {
				iv := w.flush(e, true)
				if iv == 0 {
					iv = 1
				}
				t.nextFlush[i] = t.rel + iv
			}
			t.collect()
		}
	}
}

func (w *world) begin(c cfg, conv uint32) {
	w.hist++
	w.ops = w.ops[:0]
	w.netAB, w.netBA = nil, nil
	w.forged, w.mtuMid, w.aborted = false, false, false
	w.cfg = c
	w.a = w.newEndpoint("a", conv)
	w.b = w.newEndpoint("b", conv)
	d0 := kcp.VerifKCPState(w.a.k)
	w.emit(nil, fmt.Sprintf("new %d", conv), "ok | "+scalars(&d0))
}

func (w *world) end() {
	if !w.aborted {
		w.state(w.a)
		w.state(w.b)
	}
	w.o.Case(hx.HashKey(strings.Join(w.ops, "\n")))
	w.o.Res.Cases--
}

func (w *world) setShift(e *endpoint, s, r uint32) {
	w.simple(e, fmt.Sprintf("shift %d %d", s, r), func() string { kcp.VerifKCPShift(e.k, s, r); return "ok" })
}
func (w *world) setNoDelay(e *endpoint, nd, iv, rs, nc int) {
	w.simple(e, fmt.Sprintf("nodelay %d %d %d %d", nd, iv, rs, nc), func() string { e.k.NoDelay(nd, iv, rs, nc); return "ok" })
}
func (w *world) setWnd(e *endpoint, s, r int) {
	w.simple(e, fmt.Sprintf("wndsize %d %d", s, r), func() string { e.k.WndSize(s, r); return "ok" })
}
func (w *world) setMtu(e *endpoint, m int) {
	w.simple(e, fmt.Sprintf("setmtu %d", m), func() string { return fmt.Sprintf("r=%d", e.k.SetMtu(m)) })
}
func (w *world) setStream(e *endpoint, st bool) {
	w.simple(e, fmt.Sprintf("stream %d", b2i(st)), func() string { kcp.VerifKCPSetStream(e.k, st); return "ok" })
}

// ---------------------------------------------------------------------------------------------
// C18: clean path — nothing lost, duplicated or reordered, RTT below the minimum RTO, windows as
// the property requires, reader keeps up  ==>  every data segment is transmitted exactly once.

func (w *world) cleanPath() {
	g := w.g
	w.begin(cfg{clean: true}, g.U32())
	sa, sb := w.pickOffset(), w.pickOffset()
	w.setShift(w.a, sa, sb)
	w.setShift(w.b, sb, sa)
	nd := g.Intn(2)
	minrto := uint32(100)
	if nd == 1 {
		minrto = 30
	}
	ivs := []int{10, 20, 25} // flush intervals below the minimum RTO (30 ms in no-delay mode)
	if nd == 0 {
		ivs = append(ivs, 40, 90)
	}
	ivA, ivB := ivs[g.Intn(len(ivs))], ivs[g.Intn(len(ivs))]
	rs, nc := g.Intn(3), g.Intn(2)
	w.setNoDelay(w.a, nd, ivA, rs, nc)
	w.setNoDelay(w.b, nd, ivB, rs, nc)
	// window precondition: receive window at least min(sender window, 32)
	snd := wndChoices[g.Intn(len(wndChoices))]
	rcv := max(min(snd, 32), wndChoices[g.Intn(len(wndChoices))])
	w.setWnd(w.a, snd, rcv)
	w.setWnd(w.b, snd, rcv)
	m := []int{100, 576, 1400, 1500}[g.Intn(4)]
	w.setMtu(w.a, m)
	w.setMtu(w.b, m)
	w.stream = g.Bool()
	w.setStream(w.a, w.stream)
	w.setStream(w.b, w.stream)
	// 2D + peer interval < minrto (strictly), both directions
	maxIv := uint32(max(ivA, ivB))
	var delay uint32
	if minrto > maxIv+1 {
		delay = uint32(g.Intn(int((minrto-maxIv-1)/2) + 1))
	}
	if 2*delay+maxIv >= minrto {
		delay = 0
	}
	t := &timed{w: w, t0: w.pickOffset(), delay: delay, useUpdate: g.Chance(30), readerOn: [2]bool{true, true}}
	w.o.Count(fmt.Sprintf("clean:delay=%d", delay))
	total := 400 + g.Intn(1200)
	writes := 0
	for t.rel = 0; t.rel < uint32(total) && !w.aborted; t.rel++ {
		w.now = t.t0 + t.rel
		if g.Chance(12) && writes < 200 {
			e := w.a
			if g.Chance(30) {
				e = w.b
			}
			n := w.sendSize(e)
			if n > 0 {
				w.send(e, w.payload(e, n))
				writes++
			}
		}
		t.tick()
	}
	// let everything drain on the same clean path
	for extra := uint32(0); extra < 20000 && !w.aborted; extra++ {
		t.rel++
		t.tick()
		da, db := kcp.VerifKCPState(w.a.k), kcp.VerifKCPState(w.b.k)
		if len(da.SndQueue)+len(da.SndBuf)+len(db.SndQueue)+len(db.SndBuf) == 0 && len(t.qAB)+len(t.qBA) == 0 {
			break
		}
	}
	if !w.aborted {
		for _, e := range []*endpoint{w.a, w.b} {
			for sn, c := range e.wireSn {
				if c != 1 {
					w.viol("clean-path-retransmit", fmt.Sprintf("%s transmitted sn %d %d times on a clean path (delay %d, intervals %d/%d, nodelay %d resend %d nc %d, wnd %d/%d)", e.name, sn, c, delay, ivA, ivB, nd, rs, nc, snd, rcv))
					break
				}
			}
		}
		w.finalOracle()
	}
	w.end()
}

// ---------------------------------------------------------------------------------------------
// C03: stalled reader.  a streams to b; b's application stops reading for a while; during a
// (possibly different) period every window-probe / window-update / ack datagram is lost.

func cmdsOf(p []byte) (push, other bool) {
	hs, _ := parse(p)
	for _, h := range hs {
		if h.cmd == 81 {
			push = true
		} else {
			other = true
		}
	}
	return
}

func (w *world) stalledReader() {
	g := w.g
	w.begin(cfg{stall: true}, g.U32())
	sa, sb := w.pickOffset(), w.pickOffset()
	w.setShift(w.a, sa, sb)
	w.setShift(w.b, sb, sa)
	nc := g.Intn(2)
	nd := g.Intn(2)
	iv := []int{10, 20, 50, 100}[g.Intn(4)]
	w.setNoDelay(w.a, nd, iv, g.Intn(3), nc)
	w.setNoDelay(w.b, nd, iv, g.Intn(3), nc)
	rcv := 1 + g.Intn(8)
	if g.Chance(30) {
		rcv = []int{1, 2, 16, 32, 64}[g.Intn(5)]
	}
	w.setWnd(w.a, wndChoices[g.Intn(len(wndChoices))], 32)
	w.setWnd(w.b, 32, rcv)
	m := []int{50, 200, 1400}[g.Intn(3)]
	w.setMtu(w.a, m)
	w.setMtu(w.b, m)
	w.stream = true
	w.setStream(w.a, true)
	w.setStream(w.b, true)
	pauseAt := uint32(g.Intn(600))
	pauseLen := uint32([]int{0, 100, 1000, 5000, 30000, 130000, 200000}[g.Intn(7)])
	lossFrom := pauseAt + uint32(g.Intn(int(pauseLen)+200))
	lossLen := uint32([]int{0, 500, 3000, 20000, 125000}[g.Intn(5)])
	lossKinds := g.Intn(8) // bit0: lose control (WASK/WINS/ACK-only) datagrams a->b, bit1: b->a, bit2: lose data too
	t := &timed{w: w, t0: w.pickOffset(), delay: uint32(g.Intn(20)), readerOn: [2]bool{true, true}}
	t.lose = func(from *endpoint, p []byte) bool {
		if t.rel < lossFrom || t.rel >= lossFrom+lossLen {
			return false
		}
		push, _ := cmdsOf(p)
		if push && lossKinds&4 == 0 {
			return false
		}
		if from == w.a {
			return lossKinds&1 != 0
		}
		return lossKinds&2 != 0
	}
	toWrite := (rcv + 40 + g.Intn(100)) * (m - 24)
	written := 0
	end := pauseAt + pauseLen + lossFrom + lossLen + 2000
	seenSn := map[uint32]bool{}
	for t.rel = 0; t.rel < end && !w.aborted; {
		w.now = t.t0 + t.rel
		t.readerOn[1] = t.rel < pauseAt || t.rel >= pauseAt+pauseLen
		if written < toWrite {
			da := kcp.VerifKCPState(w.a.k)
			if len(da.SndQueue)+len(da.SndBuf) < int(da.SndWnd) { // session-style admission
				n := min(1+g.Intn(3*(m-24)), toWrite-written)
				w.send(w.a, w.payload(w.a, n))
				written += n
			}
		}
		// oracle: while the sender believes the window is closed no NEW sequence number goes on the wire
		da := kcp.VerifKCPState(w.a.k)
		throttled := da.RmtWnd == 0
		before := len(w.a.wireSn)
		t.tick()
		if throttled && len(w.a.wireSn) > before {
			// a flush that starts with rmt_wnd = 0 admits nothing; an Input that re-opened the window may
			// legitimately admit (it flushes itself), so only count when the window is still closed afterwards
			if d2 := kcp.VerifKCPState(w.a.k); d2.RmtWnd == 0 && !seenSn[d2.SndNxt] {
				t.newWhileThrottled++
			}
		}
		// time skipping: jump over idle stretches (long pauses) in steps of the flush interval
		step := uint32(1)
		if len(t.qAB)+len(t.qBA) == 0 && written >= toWrite {
			nf := min(t.nextFlush[0], t.nextFlush[1])
			if nf > t.rel+1 {
				step = nf - t.rel
			}
		}
		t.rel += step
	}
	if t.newWhileThrottled > 0 {
		w.viol("sent-while-throttled", fmt.Sprintf("a put %d new segments on the wire while the advertised window was 0", t.newWhileThrottled))
	}
	// resume: reader on, no loss; must complete
	t.lose = nil
	t.readerOn[1] = true
	ok := false
	for extra := 0; extra < 400000 && !w.aborted; extra++ {
		t.rel++
		if len(t.qAB)+len(t.qBA) == 0 {
			nf := min(t.nextFlush[0], t.nextFlush[1])
			if nf > t.rel {
				t.rel = nf
			}
		}
		t.tick()
		da, db := kcp.VerifKCPState(w.a.k), kcp.VerifKCPState(w.b.k)
		if len(da.SndQueue)+len(da.SndBuf)+len(db.SndQueue)+len(db.SndBuf) == 0 && len(t.qAB)+len(t.qBA) == 0 {
			ok = true
			break
		}
		if t.rel > end+400000 {
			break
		}
	}
	if !w.aborted {
		if !ok {
			da := kcp.VerifKCPState(w.a.k)
			w.viol("no-resume", fmt.Sprintf("transfer did not complete within 400 s after the reader resumed (rcv_wnd %d, pause %d+%d ms, loss %d+%d ms kinds %d): backlog %d+%d, rmt_wnd %d probe_wait %d",
				rcv, pauseAt, pauseLen, lossFrom, lossLen, lossKinds, len(da.SndQueue), len(da.SndBuf), da.RmtWnd, da.ProbeWait))
		} else {
			w.recvAll(w.b)
			w.finalOracle()
		}
	}
	w.end()
}

// ---------------------------------------------------------------------------------------------
// C12: the same abstract history at two placements in sequence-number / clock space must give the
// same observations, shifted.

type shiftPlan struct{ sa, sb, t uint32 }

// normalise one output datagram of endpoint e (send space s, receive space r, clock t)
func normalise(p []byte, s, r, t uint32) string {
	q := append([]byte(nil), p...)
	off := 0
	for len(q)-off >= 24 {
		cmd := q[off+4]
		ln := int(binary.LittleEndian.Uint32(q[off+20:]))
		sn := binary.LittleEndian.Uint32(q[off+12:])
		una := binary.LittleEndian.Uint32(q[off+16:])
		ts := binary.LittleEndian.Uint32(q[off+8:])
		switch cmd {
		case 81:
			sn, una, ts = sn-s, una-r, ts-t
		case 82:
			sn, una, ts = sn-r, una-r, ts-t
		default: // WASK/WINS: sn and ts are whatever the scratch header held (dead fields)
			sn, ts, una = 0, 0, una-r
		}
		binary.LittleEndian.PutUint32(q[off+12:], sn)
		binary.LittleEndian.PutUint32(q[off+16:], una)
		binary.LittleEndian.PutUint32(q[off+8:], ts)
		off += 24 + ln
		if ln < 0 || off > len(q) {
			break
		}
	}
	return hx.Hex(q)
}

// shiftRun runs one deterministic history (choices from g only) at the given placement and
// returns the normalised transcript.
func (w *world) shiftRun(g *hx.Rng, pl shiftPlan) []string {
	save := w.g
	w.g = g
	defer func() { w.g = save }()
	var tr []string
	w.begin(cfg{}, g.U32())
	w.setShift(w.a, pl.sa, pl.sb)
	w.setShift(w.b, pl.sb, pl.sa)
	for _, e := range []*endpoint{w.a, w.b} {
		w.setNoDelay(e, g.Intn(2), []int{10, 20, 40, 100}[g.Intn(4)], g.Intn(3), g.Intn(2))
		w.setWnd(e, wndChoices[g.Intn(len(wndChoices))], wndChoices[g.Intn(len(wndChoices))])
	}
	m := []int{50, 100, 576, 1400}[g.Intn(4)]
	w.setMtu(w.a, m)
	w.setMtu(w.b, m)
	w.stream = g.Bool()
	w.setStream(w.a, w.stream)
	w.setStream(w.b, w.stream)
	w.now = pl.t
	useUpdate := g.Chance(30)
	steps := 150 + g.Intn(250)
	note := func(e *endpoint, what string) {
		s, r := pl.sa, pl.sb
		if e == w.b {
			s, r = pl.sb, pl.sa
		}
		q := w.netAB
		if e == w.b {
			q = w.netBA
		}
		_ = q
		tr = append(tr, e.name+" "+what)
		_ = s
		_ = r
	}
	seenAB, seenBA := 0, 0
	flushNew := func() {
		for ; seenAB < len(w.netAB); seenAB++ {
			tr = append(tr, "a-out "+normalise(w.netAB[seenAB], pl.sa, pl.sb, pl.t))
		}
		for ; seenBA < len(w.netBA); seenBA++ {
			tr = append(tr, "b-out "+normalise(w.netBA[seenBA], pl.sb, pl.sa, pl.t))
		}
	}
	take := func(q *[][]byte, seen *int, idx int) []byte {
		p := (*q)[idx]
		*q = append((*q)[:idx], (*q)[idx+1:]...)
		*seen--
		return p
	}
	for i := 0; i < steps && !w.aborted; i++ {
		e := w.a
		if g.Chance(40) {
			e = w.b
		}
		r := g.Intn(100)
		switch {
		case r < 20:
			n := w.sendSize(e)
			w.send(e, w.payload(e, n))
			note(e, fmt.Sprintf("send %d", n))
		case r < 40:
			if useUpdate {
				c := w.check(e)
				w.update(e)
				note(e, fmt.Sprintf("check+update %d", c-pl.t))
			} else {
				iv := w.flush(e, !g.Chance(10))
				note(e, fmt.Sprintf("flush -> %d", iv))
			}
		case r < 70:
			toB := g.Chance(55)
			q, seen, dst := &w.netAB, &seenAB, w.b
			if !toB {
				q, seen, dst = &w.netBA, &seenBA, w.a
			}
			if len(*q) == 0 {
				continue
			}
			idx := 0
			if g.Chance(25) {
				idx = g.Intn(len(*q))
			}
			fate := g.Intn(100)
			switch {
			case fate < 12:
				take(q, seen, idx)
			case fate < 20:
				w.input(dst, (*q)[idx], true, g.Chance(20))
			case fate < 26:
			default:
				w.input(dst, take(q, seen, idx), true, g.Chance(20))
			}
			note(dst, fmt.Sprintf("deliver fate %d idx %d", fate, idx))
		case r < 78:
			// forged input built RELATIVE to the live state (so that it is shift-equivariant): an ACK
			// beyond what was transmitted / an in- or out-of-window PUSH, timestamps around now
			d := kcp.VerifKCPState(e.k)
			p := make([]byte, 24)
			binary.LittleEndian.PutUint32(p, d.Conv)
			binary.LittleEndian.PutUint16(p[6:], uint16(g.Intn(64)))
			ts := w.now + []uint32{0, 1, 0xFFFFFFFF, uint32(0) - d.RxRto, 5}[g.Intn(5)]
			binary.LittleEndian.PutUint32(p[8:], ts)
			what := ""
			if g.Bool() {
				p[4] = 82
				sn := d.SndUna + uint32(g.Intn(int(d.SndNxt-d.SndUna)+3))
				binary.LittleEndian.PutUint32(p[12:], sn)
				binary.LittleEndian.PutUint32(p[16:], d.SndUna+uint32(g.Intn(2)))
				what = fmt.Sprintf("forged ack +%d", sn-d.SndUna)
			} else {
				p[4] = 81
				sn := d.RcvNxt + uint32(g.Intn(int(d.RcvWnd)+3)) - 1
				binary.LittleEndian.PutUint32(p[12:], sn)
				binary.LittleEndian.PutUint32(p[16:], d.SndUna)
				binary.LittleEndian.PutUint32(p[20:], 3)
				p = append(p, byte(sn-d.RcvNxt), 7, 9)
				what = fmt.Sprintf("forged push %+d", int32(sn-d.RcvNxt))
			}
			w.forged = true
			w.input(e, p, true, g.Chance(30))
			note(e, what)
		case r < 86:
			before := len(e.got) + len(e.gotMsgs)
			w.recv(e, []int{0, 1, 4096, 70000}[g.Intn(4)])
			note(e, fmt.Sprintf("recv -> %d bytes/msgs total (%d new)", len(e.got)+len(e.gotMsgs), len(e.got)+len(e.gotMsgs)-before))
		default:
			da := kcp.VerifKCPState(w.a.k)
			steps := []uint32{0, 1, 5, da.Interval, da.RxRto, da.RxRto + 1, 1000, 10001}
			w.now += steps[g.Intn(len(steps))]
		}
		flushNew()
	}
	if !w.aborted {
		tr = append(tr, fmt.Sprintf("final a got %s", hx.HashKey(string(w.a.got)+fmt.Sprint(w.a.gotMsgs))))
		tr = append(tr, fmt.Sprintf("final b got %s", hx.HashKey(string(w.b.got)+fmt.Sprint(w.b.gotMsgs))))
	}
	w.end()
	return tr
}

func (w *world) shiftPair() {
	g := w.g
	seed := g.U64()
	base := w.shiftRun(hx.NewRng(seed), shiftPlan{0, 0, 0})
	// placements straddling 2^31 / 2^32 inside the transfer, and random ones
	mk := func() uint32 {
		switch g.Intn(3) {
		case 0:
			return []uint32{1 << 31, 0}[g.Intn(2)] - uint32(g.Intn(60))
		case 1:
			return []uint32{1 << 31, 0}[g.Intn(2)] - uint32(g.Intn(4000))
		default:
			return g.U32()
		}
	}
	pl := shiftPlan{mk(), mk(), mk()}
	other := w.shiftRun(hx.NewRng(seed), pl)
	n := min(len(base), len(other))
	for i := 0; i < n; i++ {
		if base[i] != other[i] {
			w.viol("shift-variance", fmt.Sprintf("placement sn_a=%d sn_b=%d clock=%d: transcript differs from the run at 0/0/0 at step %d:\n  at 0:      %s\n  shifted:   %s", pl.sa, pl.sb, pl.t, i, trunc(base[i]), trunc(other[i])))
			return
		}
	}
	if len(base) != len(other) {
		w.viol("shift-variance", fmt.Sprintf("placement sn_a=%d sn_b=%d clock=%d: transcript lengths differ (%d vs %d)", pl.sa, pl.sb, pl.t, len(base), len(other)))
	}
}

func trunc(s string) string {
	if len(s) > 300 {
		return s[:300] + "…"
	}
	return s
}

// ---------------------------------------------------------------------------------------------
// component entry points (each is registered under its own name in cmd/corr)

func scaled(tier string, quick, thorough int) int {
	if tier == "thorough" {
		return thorough
	}
	return quick
}

const baseRule = "a case is one two-endpoint history of real protocol cores under a frozen virtual clock; distinct = distinct op-line sequences (hash); every history stores and transmits data; "

// RunClean: C18
func RunClean(o *hx.Out, g *hx.Rng, tier string) {
	o.Res.Rule = baseRule + "clean path: constant one-way delay, no loss/dup/reorder, 2D+interval < min RTO, window precondition, reader keeps up"
	w := &world{o: o, g: g, tier: tier}
	for i := 0; i < scaled(tier, 25, 400); i++ {
		w.cleanPath()
	}
}

// RunStall: C03
func RunStall(o *hx.Out, g *hx.Rng, tier string) {
	o.Res.Rule = baseRule + "stalled reader: pause point/length, receive window 1..64, loss masks on WASK/WINS/ACK (and data) during and after the pause, with and without congestion control"
	w := &world{o: o, g: g, tier: tier}
	w.fixedStall()
	for i := 0; i < scaled(tier, 12, 400); i++ {
		w.stalledReader()
	}
}

// RunShift: C12
func RunShift(o *hx.Out, g *hx.Rng, tier string) {
	o.Res.Rule = baseRule + "each abstract history is run at placement 0/0/0 and at a placement straddling 2^31 or 2^32 (or random); transcripts must agree after un-shifting"
	w := &world{o: o, g: g, tier: tier}
	w.fixedAll()
	for i := 0; i < scaled(tier, 40, 700); i++ {
		w.shiftPair()
	}
}

// RunMtu: C10 (core half) — SetMtu at any point of a history
func RunMtu(o *hx.Out, g *hx.Rng, tier string) {
	o.Res.Rule = baseRule + "SetMtu with boundary and random values before and during traffic (growing and shrinking, queued data of the old size)"
	w := &world{o: o, g: g, tier: tier}
	for i := 0; i < scaled(tier, 80, 1500); i++ {
		w.history(cfg{mtuMid: true, forge: i%4 == 3})
	}
}

// RunForge: C04/C05 — forged and malformed input at any point of a history
func RunForge(o *hx.Out, g *hx.Rng, tier string) {
	o.Res.Rule = baseRule + "forged/mutated/truncated/spliced/random datagrams injected at any point (fields at boundary values relative to the live state)"
	w := &world{o: o, g: g, tier: tier}
	w.fixedAll()
	for i := 0; i < scaled(tier, 100, 2000); i++ {
		w.history(cfg{forge: true, bigMsg: i%10 == 0})
	}
}
