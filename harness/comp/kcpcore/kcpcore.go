// Package kcpcore: correspondence component `kcp` — two real protocol cores (kcp.go) connected by a
// simulated network under a frozen virtual clock, against Model/Kcp.  It is also the search
// oracle for the single-connection properties C01–C05, C10 (core half), C12, C18.
//
// Must run inside a synctest bubble (frozen time.Now): see cmd/corr.
package kcpcore

import (
	"bytes"
	"encoding/binary"
	"fmt"
	"sort"
	"strconv"
	"strings"
	"sync/atomic"

	kcp "github.com/xtaci/kcp-go/v5"
	"verif/harness/internal/hx"
)

// ---------------------------------------------------------------------------------------------
// one endpoint

type endpoint struct {
	name string
	k    *kcp.KCP
	outs [][]byte // outputs of the current op
	dead bool     // the core panicked; abandon

	// oracle state
	written []byte   // stream mode: bytes accepted by Send
	msgs    [][]byte // message mode: messages accepted by Send
	got     []byte   // bytes returned by Recv
	gotMsgs [][]byte
	wireSn  map[uint32]int // count of PUSH transmissions per sn (C18)
	maxRto  uint32

	// C04 "nothing new after a timeout loss until the oldest outstanding segment is acknowledged"
	collapse    bool   // a timeout retransmission happened with congestion control on
	collapseUna uint32 // snd_una at that moment
	collapseNxt uint32 // snd_nxt at that moment
	fastSince   bool   // a later flush did a fast/early retransmit (fast recovery re-inflates cwnd)

	resized bool // WndSize was called after traffic started: the occupancy bounds no longer apply (C04 okRun)
}

type world struct {
	o       *hx.Out
	g       *hx.Rng
	a, b    *endpoint
	now     uint32
	ops     []string // op lines of this history (for replays)
	netAB   [][]byte // in flight a -> b
	netBA   [][]byte
	cfg     cfg
	forged  bool // a forged / mutated datagram was injected: network-fault-only oracles are off
	mtuMid  bool // SetMtu was called after traffic started
	stream  bool
	tier    string
	hist    int
	aborted bool
}

func scalars(d *kcp.VerifKCPDump) string {
	return fmt.Sprintf("%d %d %d %d %d %d %d %d %d %d %d %d %d %d %d %d %d %d %d %d %d %d %d %d %d %d %d %d %d %d %d %d %d %d",
		d.Conv, d.Mtu, d.Mss, d.State, d.SndUna, d.SndNxt, d.RcvNxt, d.Ssthresh, uint32(d.RxRttvar), uint32(d.RxSrtt),
		d.RxRto, d.RxMinrto, d.SndWnd, d.RcvWnd, d.RmtWnd, d.Cwnd, d.Incr, d.Probe, d.TsProbe, d.ProbeWait, d.Interval,
		d.TsFlush, d.Nodelay, d.Updated, d.DeadLink, uint32(d.Fastresend), uint32(d.Nocwnd), uint32(d.Stream),
		len(d.SndQueue), len(d.RcvQueue), len(d.SndBuf), len(d.RcvBuf), len(d.AckSn), d.BufLen)
}

func showSeg(s *kcp.VerifSeg) string {
	return fmt.Sprintf("%d.%d.%d.%d.%d.%d.%d.%d.%d.%d.%d.%d.%s", s.Conv, s.Cmd, s.Frg, s.Wnd, s.Ts, s.Sn, s.Una, s.Rto, s.Xmit,
		s.Resendts, s.Fastack, s.Acked, hx.Hex(s.Data))
}

func showSegs(l []kcp.VerifSeg) string {
	var sb strings.Builder
	sb.WriteByte('[')
	for i := range l {
		if i > 0 {
			sb.WriteByte(',')
		}
		sb.WriteString(showSeg(&l[i]))
	}
	sb.WriteByte(']')
	return sb.String()
}

func queues(d *kcp.VerifKCPDump) string {
	rb := append([]kcp.VerifSeg(nil), d.RcvBuf...)
	sort.SliceStable(rb, func(i, j int) bool { return rb[i].Sn-d.RcvNxt < rb[j].Sn-d.RcvNxt })
	var acks []string
	for i := range d.AckSn {
		acks = append(acks, fmt.Sprintf("%d.%d", d.AckSn[i], d.AckTs[i]))
	}
	return fmt.Sprintf("Q sq=%s rq=%s sb=%s rb=%s ack=[%s]", showSegs(d.SndQueue), showSegs(d.RcvQueue), showSegs(d.SndBuf),
		showSegs(rb), strings.Join(acks, ","))
}

func showOuts(o [][]byte) string {
	if len(o) == 0 {
		return "none"
	}
	s := make([]string, len(o))
	for i := range o {
		s[i] = hx.Hex(o[i])
	}
	return strings.Join(s, ",")
}

func (w *world) newEndpoint(name string, conv uint32) *endpoint {
	e := &endpoint{name: name, wireSn: map[uint32]int{}}
	e.k = kcp.NewKCP(conv, func(buf []byte, size int) {
		e.outs = append(e.outs, append([]byte(nil), buf[:size]...))
	})
	return e
}

func (w *world) peer(e *endpoint) *endpoint {
	if e == w.a {
		return w.b
	}
	return w.a
}

func (w *world) viol(kind, detail string) {
	w.o.Violate(hx.Violation{Kind: kind, Detail: fmt.Sprintf("history %d: %s", w.hist, detail), Replay: append([]string(nil), w.ops...)})
}

// emit logs the op line and the observation, then runs the per-op oracles.
func (w *world) emit(e *endpoint, op, obs string) {
	line := op
	if e != nil {
		line = e.name + " " + op
	}
	w.ops = append(w.ops, line)
	w.o.Op(line, obs)
	w.o.Count("op:" + strings.Fields(op)[0])
}

// call runs f on the real core with panic recovery; returns false if it panicked.
func (w *world) call(e *endpoint, op string, f func() string) bool {
	if e.dead {
		return false
	}
	e.outs = e.outs[:0]
	kcp.VerifSetClock(w.now)
	var obs string
	lost0, fast0 := snmpLost(), snmpFast()
	nxt0 := kcp.VerifKCPState(e.k).SndNxt
	if msg := hx.Try(func() { obs = f() }); msg != "" {
		e.dead = true
		w.aborted = true
		w.emit(e, op, "panic")
		w.o.Count("panic")
		w.viol(panicKind(op, w), fmt.Sprintf("%s %s panicked: %s", e.name, op, msg))
		return false
	}
	d := kcp.VerifKCPState(e.k)
	w.emit(e, op, obs+" | "+scalars(&d))
	w.checkInvariants(e, &d, op)
	w.admissionOracle(e, &d, op, snmpLost()-lost0, snmpFast()-fast0)
	// C04 admission rule: a new sequence number is only assigned while fewer than
	// min(snd_wnd, rmt_wnd) are outstanding (the values in force at the flush that admitted it are
	// the ones the operation leaves behind: Input updates them before it flushes)
	if d.SndNxt != nxt0 && !strings.HasPrefix(op, "shift") && d.SndNxt-d.SndUna > min(d.SndWnd, d.RmtWnd) {
		w.viol("admitted-over-window", fmt.Sprintf("%s after %s: %d outstanding after admitting new segments, snd_wnd %d, peer window %d", e.name, op, d.SndNxt-d.SndUna, d.SndWnd, d.RmtWnd))
	}
	w.route(e)
	return true
}

func snmpLost() uint64 { return atomic.LoadUint64(&kcp.DefaultSnmp.LostSegs) }
func snmpFast() uint64 {
	return atomic.LoadUint64(&kcp.DefaultSnmp.FastRetransSegs) + atomic.LoadUint64(&kcp.DefaultSnmp.EarlyRetransSegs)
}

// admissionOracle (C04): with congestion control on, after a flush that retransmitted by timeout no
// new sequence number is assigned until snd_una moves.  A later fast/early retransmission
// re-inflates cwnd (fast recovery) — that case is reported under its own kind (known finding).
func (w *world) admissionOracle(e *endpoint, d *kcp.VerifKCPDump, op string, lost, fast uint64) {
	if e.collapse && d.SndUna != e.collapseUna {
		e.collapse = false
	}
	if e.collapse && d.SndNxt != e.collapseNxt {
		kind := "admission-after-timeout"
		if e.fastSince {
			kind = "admission-after-timeout-fast-recovery"
		}
		w.viol(kind, fmt.Sprintf("%s after %s: snd_nxt moved %d -> %d while snd_una is still %d since the timeout retransmission (cwnd %d)", e.name, op, e.collapseNxt, d.SndNxt, d.SndUna, d.Cwnd))
		e.collapse = false
	}
	if e.collapse && fast > 0 && lost == 0 {
		e.fastSince = true
	}
	if lost > 0 && d.Nocwnd == 0 {
		e.collapse, e.collapseUna, e.collapseNxt, e.fastSince = true, d.SndUna, d.SndNxt, false
	}
	if d.Nocwnd != 0 {
		e.collapse = false
	}
}

func panicKind(op string, w *world) string {
	f := strings.Fields(op)[0]
	switch {
	case f == "input":
		return "panic-input" // C05
	case w.mtuMid:
		return "panic-after-setmtu" // C10
	default:
		return "panic-" + f
	}
}

// route moves the outputs of the last op into the network and applies the C10/C04/C18 wire oracles.
func (w *world) route(e *endpoint) {
	d := kcp.VerifKCPState(e.k)
	for _, p := range e.outs {
		if len(p) == 0 {
			w.viol("output-empty", fmt.Sprintf("%s handed an empty packet to its output callback", e.name))
		}
		if len(p) > int(d.Mtu) {
			w.viol("output-exceeds-mtu", fmt.Sprintf("%s output %d bytes > mtu %d", e.name, len(p), d.Mtu))
		}
		w.inspectWire(e, &d, p)
		if e == w.a {
			w.netAB = append(w.netAB, p)
		} else {
			w.netBA = append(w.netBA, p)
		}
	}
	e.outs = e.outs[:0]
}

type hdr struct {
	conv        uint32
	cmd, frg    uint8
	wnd         uint16
	ts, sn, una uint32
	length      uint32
	data        []byte
}

func parse(p []byte) (hs []hdr, ok bool) {
	for len(p) >= 24 {
		h := hdr{conv: binary.LittleEndian.Uint32(p), cmd: p[4], frg: p[5], wnd: binary.LittleEndian.Uint16(p[6:]),
			ts: binary.LittleEndian.Uint32(p[8:]), sn: binary.LittleEndian.Uint32(p[12:]), una: binary.LittleEndian.Uint32(p[16:]),
			length: binary.LittleEndian.Uint32(p[20:])}
		p = p[24:]
		if uint32(len(p)) < h.length {
			return hs, false
		}
		h.data = p[:h.length]
		p = p[h.length:]
		hs = append(hs, h)
	}
	return hs, len(p) == 0
}

func (w *world) inspectWire(e *endpoint, d *kcp.VerifKCPDump, p []byte) {
	hs, ok := parse(p)
	if !ok || len(hs) == 0 {
		if len(p) > 0 {
			w.viol("wire-malformed", fmt.Sprintf("%s emitted a datagram that does not parse as KCP segments: %s", e.name, hx.Hex(p)))
		}
		return
	}
	free := 0
	if len(d.RcvQueue) < int(d.RcvWnd) {
		free = int(d.RcvWnd) - len(d.RcvQueue)
	}
	for _, h := range hs {
		if h.cmd < 81 || h.cmd > 84 || h.conv != d.Conv {
			w.viol("wire-malformed", fmt.Sprintf("%s emitted cmd %d conv %d", e.name, h.cmd, h.conv))
		}
		// C04 truthful window: never advertise more than the delivery queue has free
		if int(h.wnd) > free {
			w.viol("wnd-overadvertised", fmt.Sprintf("%s advertised wnd %d but only %d free (rcv_wnd %d, queued %d)", e.name, h.wnd, free, d.RcvWnd, len(d.RcvQueue)))
		}
		if h.cmd == 81 {
			e.wireSn[h.sn]++
		}
	}
}

// checkInvariants: the state oracles of C04 and C18 on the real core after every op.
func (w *world) checkInvariants(e *endpoint, d *kcp.VerifKCPDump, op string) {
	if e.resized {
		// a window shrunk under traffic may be smaller than what is already held (hypothesis okRun of the
		// C04 bounds); what is advertised on the wire must stay truthful all the same (route)
	} else if len(d.RcvQueue) > int(d.RcvWnd) {
		w.viol("rcvq-over-window", fmt.Sprintf("%s after %s: %d in-order segments held, window %d", e.name, op, len(d.RcvQueue), d.RcvWnd))
	}
	if !e.resized && len(d.RcvBuf) > int(d.RcvWnd) {
		w.viol("rcvbuf-over-window", fmt.Sprintf("%s after %s: %d out-of-order segments held, window %d", e.name, op, len(d.RcvBuf), d.RcvWnd))
	}
	if !e.resized && len(d.SndBuf) > int(d.SndWnd) {
		w.viol("inflight-over-window", fmt.Sprintf("%s after %s: %d outstanding, send window %d", e.name, op, len(d.SndBuf), d.SndWnd))
	}
	if d.SndNxt-d.SndUna != uint32(len(d.SndBuf)) {
		w.viol("inflight-count", fmt.Sprintf("%s after %s: snd_nxt-snd_una=%d but %d in snd_buf", e.name, op, d.SndNxt-d.SndUna, len(d.SndBuf)))
	}
	// the configured minimum is 30 ms in no-delay mode and 100 ms otherwise (settings are only changed
	// before traffic in these histories, so the bound holds from the start)
	floor := uint32(100)
	if d.Nodelay != 0 {
		floor = 30
	}
	if d.RxRto < floor || d.RxRto < d.RxMinrto || d.RxRto > 60000 {
		w.viol("rto-out-of-bounds", fmt.Sprintf("%s after %s: rx_rto %d, configured minimum %d (nodelay %d), internal minrto %d", e.name, op, d.RxRto, floor, d.Nodelay, d.RxMinrto))
	}
}

// ---------------------------------------------------------------------------------------------
// operations

func (w *world) send(e *endpoint, data []byte) {
	op := "send " + hx.Hex(data)
	var ret int
	d0 := kcp.VerifKCPState(e.k)
	if w.call(e, op, func() string { ret = e.k.Send(data); return fmt.Sprintf("r=%d", ret) }) {
		if w.stream {
			if ret == 0 {
				e.written = append(e.written, data...)
			} else if ret == -2 {
				// a refused Send must not have taken any byte (C01: the reader would see bytes the
				// writer was told were not accepted)
				d1 := kcp.VerifKCPState(e.k)
				if n := len(d1.SndQueue); n > 0 && len(d0.SndQueue) == n && len(d1.SndQueue[n-1].Data) != len(d0.SndQueue[n-1].Data) {
					w.viol("send-refusal-took-bytes", fmt.Sprintf("%s Send returned -2 but appended %d bytes to the last queued segment", e.name, len(d1.SndQueue[n-1].Data)-len(d0.SndQueue[n-1].Data)))
				}
			}
		} else if ret == 0 {
			e.msgs = append(e.msgs, append([]byte(nil), data...))
		}
		w.o.Count(fmt.Sprintf("send-ret:%d", ret))
	}
}

func (w *world) recv(e *endpoint, buflen int) {
	op := fmt.Sprintf("recv %d", buflen)
	buf := make([]byte, buflen)
	var n int
	if w.call(e, op, func() string {
		n = e.k.Recv(buf)
		if n >= 0 {
			return fmt.Sprintf("r=%d d=%s", n, hx.Hex(buf[:n]))
		}
		return fmt.Sprintf("r=%d d=-", n)
	}) {
		w.o.Count(fmt.Sprintf("recv-ret:%s", map[bool]string{true: "data", false: strconv.Itoa(n)}[n >= 0]))
		if n >= 0 {
			if w.stream {
				e.got = append(e.got, buf[:n]...)
			} else {
				e.gotMsgs = append(e.gotMsgs, append([]byte(nil), buf[:n]...))
			}
			w.prefixOracle(e)
		}
	}
}

// prefixOracle (C01): what e has read is a prefix of what its peer's writer had accepted.
func (w *world) prefixOracle(e *endpoint) {
	if w.forged {
		return
	}
	p := w.peer(e)
	if w.stream {
		if !bytes.HasPrefix(p.written, e.got) {
			i := 0
			for i < len(e.got) && i < len(p.written) && e.got[i] == p.written[i] {
				i++
			}
			w.viol("stream-not-prefix", fmt.Sprintf("%s read %d bytes; differs from what %s wrote at offset %d (written %d)", e.name, len(e.got), p.name, i, len(p.written)))
		}
	} else {
		if len(e.gotMsgs) > len(p.msgs) {
			w.viol("msg-not-prefix", fmt.Sprintf("%s read %d messages, %s sent %d", e.name, len(e.gotMsgs), p.name, len(p.msgs)))
			return
		}
		for i := range e.gotMsgs {
			if !bytes.Equal(e.gotMsgs[i], p.msgs[i]) {
				w.viol("msg-not-prefix", fmt.Sprintf("%s message %d differs from the one %s sent (len %d vs %d)", e.name, i, p.name, len(e.gotMsgs[i]), len(p.msgs[i])))
				return
			}
		}
	}
}

func (w *world) input(e *endpoint, data []byte, regular, ackNoDelay bool) {
	op := fmt.Sprintf("input %s %d %d %d", hx.Hex(data), b2i(regular), b2i(ackNoDelay), w.now)
	pt := kcp.IKCP_PACKET_REGULAR
	if !regular {
		pt = kcp.IKCP_PACKET_FEC
	}
	var ret int
	if w.call(e, op, func() string {
		ret = e.k.Input(data, pt, ackNoDelay)
		return fmt.Sprintf("r=%d o=%s", ret, showOuts(e.outs))
	}) {
		w.o.Count(fmt.Sprintf("input-ret:%d", ret))
	}
}

func (w *world) flush(e *endpoint, full bool) uint32 {
	op := fmt.Sprintf("flush %d %d", b2i(full), w.now)
	var iv uint32
	w.call(e, op, func() string {
		iv = kcp.VerifKCPFlush(e.k, full)
		return fmt.Sprintf("r=%d o=%s", iv, showOuts(e.outs))
	})
	return iv
}

func (w *world) update(e *endpoint) {
	op := fmt.Sprintf("update %d", w.now)
	w.call(e, op, func() string { e.k.Update(); return "o=" + showOuts(e.outs) })
}

func (w *world) check(e *endpoint) uint32 {
	op := fmt.Sprintf("check %d", w.now)
	var v uint32
	w.call(e, op, func() string { v = e.k.Check(); return fmt.Sprintf("r=%d", v) })
	return v
}

func (w *world) simple(e *endpoint, op string, f func() string) { w.call(e, op, f) }

func (w *world) state(e *endpoint) {
	if e.dead {
		return
	}
	d := kcp.VerifKCPState(e.k)
	w.emit(e, "state", queues(&d))
}

func b2i(b bool) int {
	if b {
		return 1
	}
	return 0
}

// ---------------------------------------------------------------------------------------------
// generators

var wndChoices = []int{1, 2, 3, 4, 8, 32, 128, 256}
var mtuChoices = []int{25, 26, 50, 100, 300, 576, 1400, 1500, 1524}
var offsetBases = []uint32{0, 1 << 31, 0xFFFFFFFF, 0x7FFFFFFF}

func (w *world) pickOffset() uint32 {
	g := w.g
	switch g.Intn(4) {
	case 0:
		return 0
	case 1:
		return offsetBases[g.Intn(len(offsetBases))] - uint32(g.Intn(40))
	case 2:
		return offsetBases[g.Intn(len(offsetBases))] - uint32(g.Intn(3000))
	default:
		return g.U32()
	}
}

func (w *world) sendSize(e *endpoint) int {
	n := w.sendSize0(e)
	if !w.stream && !w.cfg.bigMsg {
		// precondition of C02 (DESIGN O1): a message must fit the peer's receive window
		d, pd := kcp.VerifKCPState(e.k), kcp.VerifKCPState(w.peer(e).k)
		n = min(n, int(d.Mss)*int(pd.RcvWnd))
	}
	return n
}

func (w *world) sendSize0(e *endpoint) int {
	g := w.g
	d := kcp.VerifKCPState(e.k)
	mss := int(d.Mss)
	switch g.Intn(10) {
	case 0:
		return 1
	case 1:
		return max(mss-1, 1)
	case 2:
		return mss
	case 3:
		return mss + 1
	case 4:
		return mss * (2 + g.Intn(3))
	case 5:
		if g.Chance(10) && mss < 40 {
			return mss*255 + g.Intn(3)*mss // the 255-fragment limit
		}
		return 1 + g.Intn(2*mss+1)
	case 6:
		return 0 // Send refuses the empty buffer
	default:
		return 1 + g.Intn(min(3*mss, 4000)+1)
	}
}

// keyed payload: byte i of the stream is a function of i so loss/dup/reorder/alteration are visible
func (w *world) payload(e *endpoint, n int) []byte {
	b := make([]byte, n)
	base := len(e.written)
	for _, m := range e.msgs {
		base += len(m)
	}
	for i := range b {
		x := uint32(base+i)*2654435761 + uint32(len(e.name[0:1])) + uint32(e.name[0])
		b[i] = byte(x >> 24)
	}
	return b
}

func (w *world) advance() {
	g := w.g
	d := kcp.VerifKCPState(w.a.k)
	steps := []uint32{0, 0, 1, 1, 2, 5, 10, d.Interval - 1, d.Interval, d.Interval + 1, d.RxRto - 1, d.RxRto, d.RxRto + 1, 2 * d.RxRto, 500, 1000}
	s := steps[g.Intn(len(steps))]
	if g.Chance(2) {
		s = []uint32{10000, 10001, 60000, 130000}[g.Intn(4)]
	}
	w.now += s
}

// deliver one datagram of the given direction according to a fate
func (w *world) deliver(toB bool) {
	g := w.g
	q := &w.netAB
	dst := w.b
	if !toB {
		q = &w.netBA
		dst = w.a
	}
	if len(*q) == 0 {
		return
	}
	idx := 0
	if g.Chance(25) {
		idx = g.Intn(len(*q)) // reorder
		w.o.Count("fate:reorder")
	}
	p := (*q)[idx]
	fate := g.Intn(100)
	switch {
	case fate < 12: // drop
		*q = append((*q)[:idx], (*q)[idx+1:]...)
		w.o.Count("fate:drop")
		return
	case fate < 20: // duplicate: deliver and keep
		w.o.Count("fate:dup")
	case fate < 26: // delay: leave it
		w.o.Count("fate:delay")
		return
	default:
		*q = append((*q)[:idx], (*q)[idx+1:]...)
		w.o.Count("fate:deliver")
	}
	w.input(dst, p, !g.Chance(5), g.Chance(20))
}

// forge: structure-aware mutation of a genuine datagram (or random bytes) — C04/C05 input class
func (w *world) forge(toB bool) {
	g := w.g
	dst := w.b
	q := w.netAB
	if !toB {
		dst = w.a
		q = w.netBA
	}
	d := kcp.VerifKCPState(dst.k)
	var p []byte
	foreign := false
	kind := g.Intn(10)
	if len(q) == 0 && kind < 5 {
		kind = 5 + g.Intn(5)
	}
	switch kind {
	case 0, 1, 2: // header field replaced by boundary values relative to the live state
		p = append([]byte(nil), q[g.Intn(len(q))]...)
		if len(p) >= 24 {
			rel := []uint32{d.SndUna, d.SndNxt, d.RcvNxt, d.RcvNxt + d.RcvWnd, d.SndUna + d.SndWnd}
			v := rel[g.Intn(len(rel))] + uint32(g.Intn(5)) - 2
			if g.Chance(20) {
				v += 1 << 31
			}
			if g.Chance(10) {
				v = g.U32()
			}
			switch g.Intn(6) {
			case 0:
				binary.LittleEndian.PutUint32(p[12:], v) // sn
			case 1:
				binary.LittleEndian.PutUint32(p[16:], v) // una
			case 2:
				binary.LittleEndian.PutUint16(p[6:], uint16([]int{0, 1, 2, 65535, g.Intn(65536)}[g.Intn(5)])) // wnd
			case 3:
				p[4] = byte([]int{80, 81, 82, 83, 84, 85, g.Intn(256)}[g.Intn(7)]) // cmd
			case 4:
				binary.LittleEndian.PutUint32(p[8:], []uint32{w.now, w.now + 1, w.now - 1, w.now + 1<<31, g.U32()}[g.Intn(5)]) // ts
			case 5:
				binary.LittleEndian.PutUint32(p[20:], []uint32{0, 1, uint32(len(p) - 24), uint32(len(p) - 23), 1500, 1501, 3000, 0xFFFFFFFF, g.U32()}[g.Intn(9)]) // len
			}
		}
	case 3: // truncate / extend
		p = append([]byte(nil), q[g.Intn(len(q))]...)
		if g.Bool() && len(p) > 0 {
			p = p[:g.Intn(len(p))]
		} else {
			p = append(p, g.Bytes(g.Intn(30))...)
		}
	case 4: // splice two datagrams
		p = append(append([]byte(nil), q[g.Intn(len(q))]...), q[g.Intn(len(q))]...)
	case 5: // random bytes
		p = g.Bytes(g.Intn(64))
	case 6: // well-formed header with the right conv, arbitrary fields, oversize payload allowed
		n := []int{0, 1, 10, 100, 1376, 1500, 1501, 3000}[g.Intn(8)]
		p = make([]byte, 24+n)
		binary.LittleEndian.PutUint32(p, d.Conv)
		p[4] = byte(81 + g.Intn(4))
		p[5] = byte(g.Intn(256))
		binary.LittleEndian.PutUint16(p[6:], uint16(g.Intn(65536)))
		binary.LittleEndian.PutUint32(p[8:], w.now-uint32(g.Intn(100)))
		binary.LittleEndian.PutUint32(p[12:], d.RcvNxt+uint32(g.Intn(int(d.RcvWnd)+3))-1)
		binary.LittleEndian.PutUint32(p[16:], d.SndUna+uint32(g.Intn(int(d.SndNxt-d.SndUna)+3))-1)
		binary.LittleEndian.PutUint32(p[20:], uint32(n))
		copy(p[24:], g.Bytes(n))
	case 9: // a genuine datagram (or a bare ACK) followed by a deliverable PUSH of ANOTHER conversation (C11)
		if len(q) > 0 {
			p = append([]byte(nil), q[g.Intn(len(q))]...)
		} else {
			p = ackSeg(d.Conv, d.SndUna, d.SndUna, w.now, 32)
		}
		h := make([]byte, 24+5)
		binary.LittleEndian.PutUint32(h, d.Conv^uint32(1+g.Intn(3)))
		h[4] = 81
		binary.LittleEndian.PutUint16(h[6:], 32)
		binary.LittleEndian.PutUint32(h[8:], w.now)
		binary.LittleEndian.PutUint32(h[12:], d.RcvNxt+uint32(g.Intn(2)))
		binary.LittleEndian.PutUint32(h[16:], d.SndUna)
		binary.LittleEndian.PutUint32(h[20:], 5)
		copy(h[24:], "EVIL!")
		p = append(p, h...)
		foreign = true
	case 8: // acknowledgements with a timestamp of any age: every 32-bit RTT sample reaches update_ack (C18)
		ages := []uint32{0, 1, 50, 1000, 60000, 1000000, 100000000, 500000000, 716000000, 750000000, 900000000, 1073000000, 1 << 30, 1<<31 - 1, 1 << 31, g.U32()}
		for i := 1 + g.Intn(3); i > 0; i-- {
			h := make([]byte, 24)
			binary.LittleEndian.PutUint32(h, d.Conv)
			h[4] = 82
			binary.LittleEndian.PutUint16(h[6:], uint16(g.Intn(300)))
			binary.LittleEndian.PutUint32(h[8:], w.now-ages[g.Intn(len(ages))]-uint32(g.Intn(3)))
			binary.LittleEndian.PutUint32(h[12:], d.SndUna+uint32(g.Intn(int(d.SndNxt-d.SndUna)+2)))
			binary.LittleEndian.PutUint32(h[16:], d.SndUna)
			p = append(p, h...)
		}
	default: // many small PUSH segments in one datagram (acklist clocking, window overflow attempt)
		cnt := 1 + g.Intn(70)
		for i := 0; i < cnt; i++ {
			h := make([]byte, 25)
			binary.LittleEndian.PutUint32(h, d.Conv)
			h[4] = 81
			binary.LittleEndian.PutUint16(h[6:], uint16(g.Intn(300)))
			binary.LittleEndian.PutUint32(h[8:], w.now)
			binary.LittleEndian.PutUint32(h[12:], d.RcvNxt+uint32(g.Intn(2*int(d.RcvWnd)+2)))
			binary.LittleEndian.PutUint32(h[16:], d.SndUna)
			binary.LittleEndian.PutUint32(h[20:], 1)
			p = append(p, h...)
		}
	}
	w.forged = true
	w.o.Count(fmt.Sprintf("forge:%d", kind))
	w.input(dst, p, !g.Chance(10), g.Chance(20))
	if foreign && !w.aborted {
		d2 := kcp.VerifKCPState(dst.k)
		for _, sg := range append(append([]kcp.VerifSeg{}, d2.RcvQueue...), d2.RcvBuf...) {
			if string(sg.Data) == "EVIL!" {
				w.viol("conv-foreign-segment-accepted", fmt.Sprintf("%s (conv %d) took a PUSH segment of another conversation (sn %d) that followed a segment of its own in the same datagram", dst.name, d2.Conv, sg.Sn))
				break
			}
		}
	}
}

type cfg struct {
	forge  bool // inject forged / mutated datagrams (C04, C05)
	mtuMid bool // SetMtu during traffic (C10)
	bigMsg bool // message mode: allow messages of more fragments than the peer's receive window (O1)
	stall  bool // C03: the reader of b pauses; WASK/WINS/ACK datagrams are lost for a while
	clean  bool // C18: loss-free in-order path, RTT below the minimum RTO
}

func (w *world) history(c cfg) {
	g := w.g
	w.hist++
	w.ops = w.ops[:0]
	w.netAB, w.netBA = nil, nil
	w.forged, w.mtuMid, w.aborted = false, false, false
	w.cfg = c
	conv := g.U32()
	w.a = w.newEndpoint("a", conv)
	w.b = w.newEndpoint("b", conv)
	d0 := kcp.VerifKCPState(w.a.k)
	w.emit(nil, fmt.Sprintf("new %d", conv), "ok | "+scalars(&d0))
	w.now = w.pickOffset()
	// settings before traffic
	w.stream = g.Bool()
	// one history in eight resizes the windows under traffic; stream mode only (a message that no longer
	// fits the peer's shrunk window is DESIGN O1, not what this is after)
	wndMid := !c.mtuMid && g.Chance(12)
	if wndMid {
		w.stream = true
		w.o.Count("history:wndsize-under-traffic")
	}
	for _, e := range []*endpoint{w.a, w.b} {
		e := e
		if g.Chance(70) {
			s, r := w.pickOffset(), w.pickOffset()
			if e == w.b { // b's spaces mirror a's so that the two can talk
				da := kcp.VerifKCPState(w.a.k)
				s, r = da.RcvNxt, da.SndNxt
			}
			w.simple(e, fmt.Sprintf("shift %d %d", s, r), func() string { kcp.VerifKCPShift(e.k, s, r); return "ok" })
		} else if e == w.b {
			da := kcp.VerifKCPState(w.a.k)
			s, r := da.RcvNxt, da.SndNxt
			w.simple(e, fmt.Sprintf("shift %d %d", s, r), func() string { kcp.VerifKCPShift(e.k, s, r); return "ok" })
		}
		if g.Chance(80) {
			nd, iv, rs, nc := g.Intn(2), []int{10, 20, 40, 100, 200, 5, 6000, -1}[g.Intn(8)], g.Intn(4), g.Intn(2)
			if g.Chance(10) {
				nd, rs, nc = -1, -1, -1
			}
			w.simple(e, fmt.Sprintf("nodelay %d %d %d %d", nd, iv, rs, nc), func() string { e.k.NoDelay(nd, iv, rs, nc); return "ok" })
		}
		if g.Chance(30) { // settings may be changed more than once before traffic starts
			nd, iv, rs, nc := g.Intn(2), []int{10, 20, 40, 100}[g.Intn(4)], g.Intn(4), g.Intn(2)
			w.simple(e, fmt.Sprintf("nodelay %d %d %d %d", nd, iv, rs, nc), func() string { e.k.NoDelay(nd, iv, rs, nc); return "ok" })
		}
		if g.Chance(80) {
			s, r := wndChoices[g.Intn(len(wndChoices))], wndChoices[g.Intn(len(wndChoices))]
			if g.Chance(5) {
				s, r = 0, -1
			}
			w.simple(e, fmt.Sprintf("wndsize %d %d", s, r), func() string { e.k.WndSize(s, r); return "ok" })
		}
		if g.Chance(60) {
			m := mtuChoices[g.Intn(len(mtuChoices))]
			if g.Chance(15) {
				m = []int{24, 0, -1, 23}[g.Intn(4)]
			}
			w.simple(e, fmt.Sprintf("setmtu %d", m), func() string { return fmt.Sprintf("r=%d", e.k.SetMtu(m)) })
		}
		st := w.stream
		w.simple(e, fmt.Sprintf("stream %d", b2i(st)), func() string { kcp.VerifKCPSetStream(e.k, st); return "ok" })
	}
	useUpdate := g.Chance(30) // drive by Update/Check instead of flush
	steps := 60 + g.Intn(120)
	if w.tier == "thorough" {
		steps = 100 + g.Intn(400)
	}
	for i := 0; i < steps && !w.aborted; i++ {
		e := w.a
		if g.Chance(35) {
			e = w.b
		}
		r := g.Intn(100)
		switch {
		case r < 18:
			n := w.sendSize(e)
			w.send(e, w.payload(e, n))
		case r < 34:
			if useUpdate {
				if g.Chance(30) {
					w.check(e)
				}
				w.update(e)
			} else {
				w.flush(e, !g.Chance(15))
			}
		case r < 62:
			w.deliver(g.Chance(55))
		case r < 74:
			d := kcp.VerifKCPState(e.k)
			sz := []int{0, 1, int(d.Mss), 4096, 70000}[g.Intn(5)]
			if g.Chance(30) {
				ps := 0
				w.simple(e, "peeksize", func() string { ps = e.k.PeekSize(); return fmt.Sprintf("r=%d", ps) })
				if ps > 0 && g.Chance(60) {
					sz = ps // what UDPSession.Read does: a buffer of exactly PeekSize() bytes
				}
			}
			w.recv(e, sz)
		case r < 84:
			w.advance()
		case r < 88:
			w.state(e)
		case r < 90:
			w.simple(e, "waitsnd", func() string { return fmt.Sprintf("r=%d", e.k.WaitSnd()) })
		case r < 96:
			if c.forge {
				w.forge(g.Bool())
			} else {
				w.deliver(g.Bool())
			}
		default:
			if c.mtuMid {
				d := kcp.VerifKCPState(e.k)
				m := []int{int(d.Mtu) + 100, int(d.Mtu) - 100, 50, 1400, 25, 5000, 1524, 1525}[g.Intn(8)]
				w.mtuMid = true
				w.simple(e, fmt.Sprintf("setmtu %d", m), func() string { return fmt.Sprintf("r=%d", e.k.SetMtu(m)) })
			} else if wndMid && g.Chance(50) {
				// WndSize under traffic (the "accept first, configure afterwards" pattern), shrinking included
				sw, rw := wndChoices[g.Intn(len(wndChoices))], wndChoices[g.Intn(len(wndChoices))]
				e.resized = true
				w.simple(e, fmt.Sprintf("wndsize %d %d", sw, rw), func() string { e.k.WndSize(sw, rw); return "ok" })
			} else {
				w.advance()
			}
		}
	}
	if !w.aborted {
		w.state(w.a)
		w.state(w.b)
	}
	if !w.forged && !w.aborted && !w.mtuMid {
		w.drain()
	}
	w.o.Case(hx.HashKey(strings.Join(w.ops, "\n")))
	w.o.Res.Cases--
}

// drain (C02/C03): the network becomes fair; everything written must be delivered and both
// backlogs must return to zero within a bound given by the retransmission timers.
func (w *world) drain() {
	g := w.g
	w.o.Count("drain")
	deadline := 0
	start := w.now
	idle := uint32(0) // consecutive rounds without any datagram: step over quiet stretches
	// progress-based bound: the per-segment timeout grows by up to 60 s per retransmission, so the time
	// to drain depends on the history; a wedge is "no progress for 40 virtual minutes" (or 24 h in all)
	lastProgress := w.now
	progressKey := func() string {
		da, db := kcp.VerifKCPState(w.a.k), kcp.VerifKCPState(w.b.k)
		return fmt.Sprint(da.SndUna, db.SndUna, len(da.SndQueue), len(db.SndQueue), len(w.a.got), len(w.b.got), len(w.a.gotMsgs), len(w.b.gotMsgs))
	}
	key := progressKey()
	for round := 0; round < 400000 && w.now-lastProgress < 2400000 && w.now-start < 86400000 && !w.aborted; round++ {
		da, db := kcp.VerifKCPState(w.a.k), kcp.VerifKCPState(w.b.k)
		doneA := len(da.SndQueue)+len(da.SndBuf) == 0
		doneB := len(db.SndQueue)+len(db.SndBuf) == 0
		if doneA && doneB && len(w.netAB) == 0 && len(w.netBA) == 0 {
			// read everything that is left
			w.recvAll(w.a)
			w.recvAll(w.b)
			w.finalOracle()
			w.o.CountN("drain-rounds", round)
			w.o.CountN("drain-virtual-s", int((w.now-start)/1000))
			return
		}
		active := len(w.netAB)+len(w.netBA) > 0
		// fair network, in order; the reader keeps reading: it reads after every datagram
		for len(w.netAB) > 0 && !w.aborted {
			p := w.netAB[0]
			w.netAB = w.netAB[1:]
			w.input(w.b, p, true, false)
			w.recvAll(w.b)
		}
		for len(w.netBA) > 0 && !w.aborted {
			p := w.netBA[0]
			w.netBA = w.netBA[1:]
			w.input(w.a, p, true, false)
			w.recvAll(w.a)
		}
		w.recvAll(w.a)
		w.recvAll(w.b)
		ia := w.flush(w.a, true)
		ib := w.flush(w.b, true)
		step := min(ia, ib)
		if step == 0 {
			step = 1
		}
		if active || len(w.netAB)+len(w.netBA) > 0 {
			idle = 0
		} else {
			idle++
			if idle > 3 { // quiet: jump ahead
				step = min(step<<min(idle-3, 8), 5000)
			}
		}
		_ = g
		w.now += step
		deadline = round
		if k := progressKey(); k != key {
			key, lastProgress = k, w.now
		}
	}
	if !w.aborted {
		da, db := kcp.VerifKCPState(w.a.k), kcp.VerifKCPState(w.b.k)
		kind := "no-drain"
		// DESIGN O1 (raw core, message mode) has a signature: the receiver's delivery queue is full of
		// fragments of a message that can never be completed.  Any other stall is not that finding.
		o1 := func(snd, rcv *endpoint, ds, dr *kcp.VerifKCPDump) bool {
			return len(ds.SndQueue)+len(ds.SndBuf) > 0 && w.msgTooBig(snd, dr) && len(dr.RcvQueue) >= int(dr.RcvWnd) && rcv.k.PeekSize() < 0
		}
		stuckA, stuckB := len(da.SndQueue)+len(da.SndBuf) > 0, len(db.SndQueue)+len(db.SndBuf) > 0
		if !w.stream && w.cfg.bigMsg && (stuckA || stuckB) && (!stuckA || o1(w.a, w.b, &da, &db)) && (!stuckB || o1(w.b, w.a, &db, &da)) {
			kind = "no-drain-msg-exceeds-rcvwnd"
		}
		w.viol(kind, fmt.Sprintf("no progress for 40 virtual minutes; after %d fair rounds: a backlog %d+%d, b backlog %d+%d, in flight %d/%d", deadline+1,
			len(da.SndQueue), len(da.SndBuf), len(db.SndQueue), len(db.SndBuf), len(w.netAB), len(w.netBA)))
	}
}

// msgTooBig: e sent a message of more fragments than its peer's receive window can hold.
func (w *world) msgTooBig(e *endpoint, peer *kcp.VerifKCPDump) bool {
	d := kcp.VerifKCPState(e.k)
	for _, m := range e.msgs {
		if (len(m)+int(d.Mss)-1)/int(d.Mss) > int(peer.RcvWnd) {
			return true
		}
	}
	return false
}

func (w *world) recvAll(e *endpoint) {
	for i := 0; i < 100000 && !w.aborted; i++ {
		ps := e.k.PeekSize()
		if ps < 0 {
			return
		}
		if i%2 == 1 && ps > 0 {
			w.recv(e, ps) // session style: exactly PeekSize() bytes
			continue
		}
		w.recv(e, 70000*4)
	}
}

func (w *world) finalOracle() {
	for _, e := range []*endpoint{w.a, w.b} {
		p := w.peer(e)
		if w.stream {
			if !bytes.Equal(e.got, p.written) {
				w.viol("drain-incomplete", fmt.Sprintf("%s read %d bytes, %s wrote %d, after both backlogs reached zero", e.name, len(e.got), p.name, len(p.written)))
			}
		} else if len(e.gotMsgs) != len(p.msgs) {
			pd := kcp.VerifKCPState(e.k)
			if w.cfg.bigMsg && w.msgTooBig(p, &pd) {
				// DESIGN O1: every fragment is acknowledged, but the message never becomes readable
				w.viol("no-drain-msg-exceeds-rcvwnd", fmt.Sprintf("%s read %d messages, %s sent %d: a message of more fragments than the receive window (%d) never becomes readable", e.name, len(e.gotMsgs), p.name, len(p.msgs), pd.RcvWnd))
				continue
			}
			w.viol("drain-incomplete", fmt.Sprintf("%s read %d messages, %s sent %d, after both backlogs reached zero", e.name, len(e.gotMsgs), p.name, len(p.msgs)))
		}
	}
}

// Run is the component entry point.
func Run(o *hx.Out, g *hx.Rng, tier string) {
	o.Res.Rule = "a case is one two-endpoint history (settings, sends, flush/update, per-datagram fates, forged inputs, recv) followed by a fair-network drain when no forged input was injected; distinct = distinct op-line sequences (hash); every history stores and transmits data"
	n := 120
	if tier == "thorough" {
		n = 2500
	}
	w := &world{o: o, g: g, tier: tier}
	w.fixedAll()
	for i := 0; i < n; i++ {
		c := cfg{forge: i%3 == 1, bigMsg: i%10 == 9}
		w.history(c)
	}
}
