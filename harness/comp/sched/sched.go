// Package sched: trace-acceptance component `sched` / `sched-async1` (C17) — a fresh
// kcp.NewTimedSched(k) is driven in REAL time (testing/synctest cannot run it, DESIGN.md 9) by
// P concurrent producers with generated deadline sequences; every task records (id, time.Now()).
//
// Op lines (ns offsets from a per-case origin 10 s before the case start, so that deadlines in
// the past stay non-negative):
//
//	case <idx> <pattern> k=<k> p=<P> n=<tasks> chan=<sync|async>
//	put  <id> <deadline> <at>      Put(f_id, origin+deadline) was called at origin+at (read before the call)
//	exec <id> <at>                 f_id ran and read time.Now() = origin+at
//	end                            quiescence (all executed, or max deadline + 2 s passed)
//
// events are merged by timestamp; the Lean acceptor (Model/Sched.obsStep) must say `ok` on every
// line.  `tm …` lines exercise the model of the timer object alone against a real time.Timer
// (differential).  The oracles below are independent of the model.
package sched

import (
	"fmt"
	"os"
	"runtime"
	"sort"
	"strings"
	"sync"
	"sync/atomic"
	"time"

	kcp "github.com/xtaci/kcp-go/v5"
	"verif/harness/internal/hx"
)

const (
	originBack  = 10 * time.Second
	quiescence  = 2 * time.Second
	lateBound   = time.Second
	settleQuick = 30 * time.Millisecond
)

// item is one planned Put of a producer.
type item struct {
	id      int
	relNow  bool          // deadline = time.Now()+off at the moment of the Put, else caseStart+off
	off     time.Duration // may be negative (past)
	until   time.Duration // before the Put: wait until caseStart+until (0 = no wait)
	chain   int           // the task re-Puts itself chain times (fresh ids id+1 … id+chain), like sess.update
	chainIv time.Duration
	busy    time.Duration // the task keeps its worker busy that long (a slow update), so that timer firings and arrivals pile up behind it
}

type spec struct {
	idx        int
	pat        string
	k          int
	plans      [][]item
	total      int // number of task ids including chain links
	background bool
	maxOff     time.Duration // upper bound of every deadline offset from the case start
}

type putRec struct {
	id     int
	dl, at int64
}
type execRec struct {
	id int
	at int64
}

type caseRun struct {
	sp       *spec
	origin   time.Time
	mu       sync.Mutex
	puts     []putRec
	execs    []execRec
	first    atomic.Int64 // ids executed at least once
	cnt      []atomic.Int32
	s        *kcp.TimedSched
	timeout  bool
	panicked string
	ctlWorst atomic.Int64 // worst oversleep of the control timers (ns)
}

func (c *caseRun) task(id int, chain int, iv, busy time.Duration) func() {
	return func() {
		at := time.Since(c.origin)
		c.mu.Lock()
		c.execs = append(c.execs, execRec{id, int64(at)})
		c.mu.Unlock()
		if c.cnt[id].Add(1) == 1 {
			if chain > 0 { // re-Put from inside the worker goroutine, as sess.update does
				c.put(id+1, time.Now().Add(iv), chain-1, iv, busy)
			}
			if busy > 0 {
				for end := time.Now().Add(busy); time.Now().Before(end); {
				}
			}
			c.first.Add(1)
		}
	}
}

func (c *caseRun) put(id int, deadline time.Time, chain int, iv, busy time.Duration) {
	dl := int64(deadline.Sub(c.origin))
	at := int64(time.Since(c.origin))
	c.mu.Lock()
	c.puts = append(c.puts, putRec{id, dl, at})
	c.mu.Unlock()
	c.s.Put(c.task(id, chain, iv, busy), deadline)
}

func waitUntil(t time.Time) {
	for {
		d := time.Until(t)
		if d <= 0 {
			return
		}
		if d > 200*time.Microsecond {
			time.Sleep(d - 100*time.Microsecond)
		} // else spin
	}
}

func runCase(sp *spec) (c *caseRun) {
	c = &caseRun{sp: sp}
	c.cnt = make([]atomic.Int32, sp.total)
	defer func() {
		if r := recover(); r != nil {
			c.panicked = fmt.Sprint(r)
		}
	}()
	c.s = kcp.NewTimedSched(sp.k)
	defer c.s.Close()
	// control group: how late does a plain 2 ms runtime timer fire on this machine right now?  A
	// lateness verdict about the scheduler under test is only meaningful if the control is prompt.
	stopCtl := make(chan struct{})
	go func() {
		for {
			select {
			case <-stopCtl:
				return
			default:
			}
			t0 := time.Now()
			time.Sleep(2 * time.Millisecond)
			if over := time.Since(t0) - 2*time.Millisecond; int64(over) > c.ctlWorst.Load() {
				c.ctlWorst.Store(int64(over))
			}
		}
	}()
	defer close(stopCtl)
	start := time.Now()
	c.origin = start.Add(-originBack)
	var wg sync.WaitGroup
	for _, plan := range sp.plans {
		wg.Add(1)
		go func(plan []item) {
			defer wg.Done()
			for _, it := range plan {
				if it.until > 0 {
					waitUntil(start.Add(it.until))
				}
				var dl time.Time
				if it.relNow {
					dl = time.Now().Add(it.off)
				} else {
					dl = start.Add(it.off)
				}
				c.put(it.id, dl, it.chain, it.chainIv, it.busy)
			}
		}(plan)
	}
	wg.Wait()
	limit := start.Add(sp.maxOff + quiescence)
	for c.first.Load() < int64(sp.total) {
		if now := time.Now(); now.After(limit) {
			// on a machine that stalls plain timers the quiescence period is stretched (up to 30 s)
			if time.Duration(c.ctlWorst.Load()) <= lateBound/4 || now.After(limit.Add(30*time.Second)) {
				c.timeout = true
				break
			}
		}
		time.Sleep(300 * time.Microsecond)
	}
	time.Sleep(settleQuick) // a duplicate execution would arrive now
	c.s.Close()
	return c
}

// ------------------------------------------------------------------------------------------------
// generators

func logDur(g *hx.Rng, maxOff time.Duration) time.Duration {
	// log-uniform 1 µs … maxOff
	d := time.Microsecond << uint(g.Intn(18))
	d += time.Duration(g.Intn(int(d)))
	for d > maxOff {
		d /= 2
	}
	if d < time.Microsecond {
		d = time.Microsecond
	}
	return d
}

var patterns = []string{"equal", "decr", "incr", "past", "now", "mix", "chain", "race", "pile", "far"}

func genSpec(g *hx.Rng, idx int, pat string, tier string) *spec {
	ks := []int{1, 2, 16}
	sp := &spec{idx: idx, pat: pat, k: ks[g.Intn(3)]}
	p := []int{1, 2, 4, 8}[g.Intn(4)]
	per := 4 + g.Intn(60)
	maxOff := []time.Duration{2 * time.Millisecond, 20 * time.Millisecond, 50 * time.Millisecond, 200 * time.Millisecond}[g.Intn(4)]
	if tier != "quick" {
		per = 4 + g.Intn(600)
	} else if maxOff == 200*time.Millisecond && g.Chance(60) {
		maxOff = 50 * time.Millisecond
	}
	id := 0
	next := func() int { id++; return id - 1 }
	sp.maxOff = maxOff
	switch pat {
	case "equal": // bursts of equal deadlines shared by all producers
		nb := 1 + g.Intn(4)
		bursts := make([]time.Duration, nb)
		for i := range bursts {
			bursts[i] = logDur(g, maxOff)
		}
		for range p {
			var plan []item
			for j := 0; j < per; j++ {
				plan = append(plan, item{id: next(), off: bursts[j*nb/per]})
			}
			sp.plans = append(sp.plans, plan)
		}
	case "decr", "incr":
		for range p {
			var plan []item
			top := logDur(g, maxOff)
			delta := top / time.Duration(per+1)
			if delta < 1 {
				delta = 1
			}
			for j := 0; j < per; j++ {
				off := top - time.Duration(j)*delta
				if pat == "incr" {
					off = time.Duration(j+1) * delta
				}
				plan = append(plan, item{id: next(), off: off})
			}
			sp.plans = append(sp.plans, plan)
		}
	case "past":
		for range p {
			var plan []item
			for j := 0; j < per; j++ {
				plan = append(plan, item{id: next(), off: -logDur(g, 500*time.Millisecond), relNow: g.Bool()})
			}
			sp.plans = append(sp.plans, plan)
		}
	case "now":
		for range p {
			var plan []item
			for j := 0; j < per; j++ {
				plan = append(plan, item{id: next(), relNow: true, off: time.Duration(g.Intn(3)) * time.Duration(g.Intn(2000))})
			}
			sp.plans = append(sp.plans, plan)
		}
	case "mix":
		for range p {
			var plan []item
			var last time.Duration
			for j := 0; j < per; j++ {
				it := item{id: next()}
				switch g.Intn(6) {
				case 0:
					it.off = -logDur(g, 500*time.Millisecond)
				case 1:
					it.relNow = true
				case 2:
					it.off = last // equal to the previous one
				case 3:
					it.relNow, it.off = true, logDur(g, maxOff/2)
				default:
					it.off = logDur(g, maxOff)
				}
				last = it.off
				if g.Chance(10) {
					it.until = time.Duration(g.Intn(int(maxOff) / 2))
				}
				plan = append(plan, it)
			}
			sp.plans = append(sp.plans, plan)
		}
		sp.maxOff = maxOff * 2
	case "chain": // tasks that re-Put themselves, as sess.update does
		for range p {
			var plan []item
			nch := 1 + g.Intn(4)
			for j := 0; j < nch; j++ {
				links := 3 + g.Intn(20)
				iv := logDur(g, maxOff/time.Duration(links+1)+time.Microsecond)
				it := item{id: next(), relNow: true, chain: links, chainIv: iv, busy: time.Duration(g.Intn(2)) * time.Duration(g.Intn(50)) * time.Microsecond}
				id += links
				plan = append(plan, it)
			}
			sp.plans = append(sp.plans, plan)
		}
		sp.maxOff = maxOff*2 + 50*time.Millisecond
	case "race": // a new task arrives just as the timer of the previous one fires
		sp.k = []int{1, 1, 2}[g.Intn(3)]
		for range p {
			var plan []item
			var t time.Duration
			for j := 0; j < per; j++ {
				d := 30*time.Microsecond + logDur(g, 2*time.Millisecond)
				jit := time.Duration(g.Intn(60000)-30000) * time.Nanosecond
				busy := time.Duration(g.Intn(3)) * time.Duration(g.Intn(80)) * time.Microsecond
				if j == 0 {
					plan = append(plan, item{id: next(), off: d, busy: busy})
				} else {
					// Put at (deadline of the previous task) + jitter; the previous task may still
					// keep the worker busy, so "timer fired" and "task arrived" are both pending
					plan = append(plan, item{id: next(), until: t + jit, off: t + d, busy: busy})
				}
				t += d
			}
			if t+time.Millisecond > sp.maxOff {
				sp.maxOff = t + time.Millisecond
			}
			sp.plans = append(sp.plans, plan)
		}
	case "pile":
		// one worker; per round: B waits in the heap (timer armed for it), an overdue busy task A
		// occupies the worker while B's timer fires AND a new future task C arrives: when A
		// returns, "timer fired" and "task arrived" are both pending at the select — the schedule
		// the stop/drain/reset dance (and the `drained` flag) exists for
		sp.k = 1
		rounds := 3 + g.Intn(12)
		if tier != "quick" {
			rounds = 10 + g.Intn(100)
		}
		var plan []item
		for r := 0; r < rounds; r++ {
			T := time.Duration(r+1) * (700*time.Microsecond + time.Duration(g.Intn(600))*time.Microsecond)
			if r > 0 {
				T = plan[len(plan)-1].off + 300*time.Microsecond + time.Duration(g.Intn(600))*time.Microsecond
			}
			busy := 60*time.Microsecond + time.Duration(g.Intn(140))*time.Microsecond
			bDl := T + 5*time.Microsecond + time.Duration(g.Intn(int(busy-20*time.Microsecond)))
			cAt := T + 15*time.Microsecond + time.Duration(g.Intn(int(busy-20*time.Microsecond)))
			cDl := T + busy + 100*time.Microsecond + time.Duration(g.Intn(400))*time.Microsecond
			plan = append(plan,
				item{id: next(), until: T - 250*time.Microsecond, off: bDl},
				item{id: next(), until: T, relNow: true, off: -time.Microsecond, busy: busy},
				item{id: next(), until: cAt, off: cDl})
		}
		sp.plans = append(sp.plans, plan)
		sp.maxOff = plan[len(plan)-1].off + time.Millisecond
	case "far": // far-future tasks first, nearer ones behind them
		sp.background = true
		far := 1200*time.Millisecond + time.Duration(g.Intn(1300))*time.Millisecond
		if tier != "quick" {
			far += time.Duration(g.Intn(2500)) * time.Millisecond
		}
		sp.maxOff = far
		sp.k = []int{1, 1, 2, 16}[g.Intn(4)]
		for pi := range p {
			var plan []item
			farAt := g.Intn(per + 1) // the far-future task arrives before, between or after the near ones
			if pi > 0 && g.Chance(30) {
				farAt = -1
			}
			for j := 0; j <= per; j++ {
				if j == farAt {
					plan = append(plan, item{id: next(), off: far - time.Duration(g.Intn(1000))*time.Microsecond})
				}
				if j == per {
					break
				}
				it := item{id: next(), off: 20*time.Millisecond + logDur(g, 180*time.Millisecond)}
				if g.Chance(20) {
					it.until = time.Duration(g.Intn(int(20 * time.Millisecond)))
				}
				plan = append(plan, it)
			}
			sp.plans = append(sp.plans, plan)
		}
	}
	sp.total = id
	return sp
}

func (sp *spec) key() string {
	var sb strings.Builder
	fmt.Fprintf(&sb, "%s k=%d", sp.pat, sp.k)
	for _, pl := range sp.plans {
		sb.WriteString("|")
		for _, it := range pl {
			fmt.Fprintf(&sb, "%d:%v:%d:%d:%d:%d;", it.id, it.relNow, it.off, it.until, it.chain, it.busy)
		}
	}
	return sb.String()
}

func (sp *spec) replay(seed uint64, tier string) []string {
	r := []string{fmt.Sprintf("corr -comp sched -seed %d -tier %s  (GODEBUG=%q), case %d pattern %s k=%d producers=%d tasks=%d",
		seed, tier, os.Getenv("GODEBUG"), sp.idx, sp.pat, sp.k, len(sp.plans), sp.total)}
	for pi, pl := range sp.plans {
		var sb strings.Builder
		fmt.Fprintf(&sb, "producer %d:", pi)
		for j, it := range pl {
			if j >= 40 {
				fmt.Fprintf(&sb, " …(%d more)", len(pl)-j)
				break
			}
			rel := "start"
			if it.relNow {
				rel = "now"
			}
			fmt.Fprintf(&sb, " [id %d at>=%v deadline %s%+v chain %d/%v busy %v]", it.id, it.until, rel, it.off, it.chain, it.chainIv, it.busy)
		}
		r = append(r, sb.String())
	}
	return r
}

// ------------------------------------------------------------------------------------------------

// ChanMode reports which timer-channel semantics this process really has.
func ChanMode() string {
	t := time.NewTimer(time.Hour)
	defer t.Stop()
	if cap(t.C) == 1 {
		return "async"
	}
	return "sync"
}

func lateBucket(d time.Duration) string {
	switch {
	case d < 10*time.Microsecond:
		return "late:<10us"
	case d < 100*time.Microsecond:
		return "late:<100us"
	case d < time.Millisecond:
		return "late:<1ms"
	case d < 10*time.Millisecond:
		return "late:<10ms"
	case d < 100*time.Millisecond:
		return "late:<100ms"
	case d < time.Second:
		return "late:<1s"
	}
	return "late:>=1s"
}

type evt struct {
	at   int64
	kind int // 0 put, 1 exec
	id   int
	dl   int64
}

func emit(o *hx.Out, c *caseRun, mode string, seed uint64, tier string) {
	sp := c.sp
	o.Case(hx.HashKey(sp.key()))
	o.Count("pattern:" + sp.pat)
	o.Count(fmt.Sprintf("workers:%d", sp.k))
	o.Count(fmt.Sprintf("producers:%d", len(sp.plans)))
	o.CountN("tasks", sp.total)
	viol := func(kind, detail string) {
		o.Violate(hx.Violation{Kind: kind, Detail: fmt.Sprintf("case %d (%s, k=%d, chan=%s): %s", sp.idx, sp.pat, sp.k, mode, detail),
			Replay: sp.replay(seed, tier)})
	}
	if c.panicked != "" {
		viol("sched-panic", "panic in the driving goroutine: "+c.panicked)
	}
	c.mu.Lock()
	puts, execs := append([]putRec(nil), c.puts...), append([]execRec(nil), c.execs...)
	c.mu.Unlock()
	evs := make([]evt, 0, len(puts)+len(execs))
	known := make(map[int]putRec, len(puts))
	for _, p := range puts {
		evs = append(evs, evt{p.at, 0, p.id, p.dl})
		known[p.id] = p
	}
	for _, e := range execs {
		evs = append(evs, evt{e.at, 1, e.id, 0})
	}
	sort.SliceStable(evs, func(i, j int) bool {
		if evs[i].at != evs[j].at {
			return evs[i].at < evs[j].at
		}
		if evs[i].kind != evs[j].kind {
			return evs[i].kind < evs[j].kind
		}
		return evs[i].id < evs[j].id
	})
	o.Op(fmt.Sprintf("case %d %s k=%d p=%d n=%d chan=%s", sp.idx, sp.pat, sp.k, len(sp.plans), sp.total, mode), "ok")
	for _, e := range evs {
		if e.kind == 0 {
			o.Op(fmt.Sprintf("put %d %d %d", e.id, e.dl, e.at), "ok")
		} else {
			o.Op(fmt.Sprintf("exec %d %d", e.id, e.at), "ok")
		}
	}
	o.Op("end", "ok")

	// ---- oracles (independent of the model) ----
	seen := map[int]int{}
	var worstLate time.Duration
	for _, e := range execs {
		seen[e.id]++
		p, ok := known[e.id]
		if !ok {
			viol("sched-unknown", fmt.Sprintf("task %d executed but never submitted", e.id))
			continue
		}
		if seen[e.id] == 2 {
			viol("sched-duplicate", fmt.Sprintf("task %d (deadline %+v from start) executed more than once", e.id, time.Duration(p.dl)-originBack))
		}
		if e.at <= p.dl {
			viol("sched-early", fmt.Sprintf("task %d executed %v BEFORE its deadline (deadline %+v from start, put at %+v)",
				e.id, time.Duration(p.dl-e.at), time.Duration(p.dl)-originBack, time.Duration(p.at)-originBack))
			o.Count("early")
			continue
		}
		ref := p.dl
		if p.at > ref {
			ref = p.at
			o.Count("deadline:past-or-now-at-put")
		} else {
			o.Count("deadline:future-at-put")
		}
		late := time.Duration(e.at - ref)
		o.Count(lateBucket(late))
		if late > worstLate {
			worstLate = late
		}
		if late >= lateBound && time.Duration(c.ctlWorst.Load()) > lateBound/4 {
			// the machine itself was stalling plain timers by more than a quarter of the bound
			o.Count("late-but-machine-overloaded")
		} else if late >= lateBound {
			viol("sched-late", fmt.Sprintf("task %d ran %v after max(deadline, Put) (deadline %+v from start, put at %+v) — bound %v, %d CPUs",
				e.id, late, time.Duration(p.dl)-originBack, time.Duration(p.at)-originBack, lateBound, numCPU()))
		}
	}
	missing := 0
	for id := 0; id < sp.total; id++ {
		if seen[id] == 0 {
			if p, ok := known[id]; ok {
				if missing == 0 {
					viol("sched-missing", fmt.Sprintf("task %d (deadline %+v from start, put at %+v) not executed %v after the last deadline; %d of %d tasks ran",
						id, time.Duration(p.dl)-originBack, time.Duration(p.at)-originBack, quiescence, len(seen), sp.total))
				}
				missing++
			} else if missing == 0 {
				// a chain link that was never submitted because its predecessor never ran
				missing++
				viol("sched-missing", fmt.Sprintf("chain link %d never submitted: its predecessor did not run; %d of %d tasks ran", id, len(seen), sp.total))
			}
		}
	}
	if missing > 0 {
		o.CountN("missing", missing)
	}
	if c.timeout && missing == 0 {
		viol("sched-missing", "quiescence wait timed out although every id has an execution record")
	}
}

func numCPU() int { return runtime.NumCPU() }

// ------------------------------------------------------------------------------------------------
// the timer object alone: real time.Timer against Model/Sched.Timer (differential)

const (
	tmArm   = 50 * time.Millisecond
	tmSleep = 120 * time.Millisecond
)

type tmLine struct{ op, obs string }

func timerScript(g *hx.Rng, mode string, n int) []tmLine {
	var out []tmLine
	t := time.NewTimer(tmArm)
	defer t.Stop()
	out = append(out, tmLine{"tm new " + mode, "ok"})
	for i := 0; i < n; i++ {
		switch g.Intn(8) {
		case 0, 1:
			time.Sleep(tmSleep)
			out = append(out, tmLine{"tm sleep", "ok"})
		case 2, 3:
			t.Reset(tmArm)
			out = append(out, tmLine{"tm reset", "ok"})
		case 4, 5:
			out = append(out, tmLine{"tm stop", fmt.Sprint(t.Stop())})
		default:
			select {
			case <-t.C:
				out = append(out, tmLine{"tm recv", "value"})
			default:
				out = append(out, tmLine{"tm recv", "empty"})
			}
		}
	}
	return out
}

// ------------------------------------------------------------------------------------------------

func Run(o *hx.Out, g *hx.Rng, tier string) {
	mode := ChanMode()
	gd := os.Getenv("GODEBUG")
	want := "sync"
	if strings.Contains(gd, "asynctimerchan=1") {
		want = "async"
	}
	if mode != want {
		// the check would silently test the wrong semantics: that is a broken check, not a result
		panic(fmt.Sprintf("sched: GODEBUG=%q asks for %s timer channels but cap(timer.C) says %s", gd, want, mode))
	}
	o.Count("timerchan:" + mode)
	o.Note(fmt.Sprintf("timer-channel semantics in this process: %s (cap(timer.C)=%d, GODEBUG=%q); real time, %d CPUs; lateness bound %v; quiescence %v",
		mode, map[string]int{"sync": 0, "async": 1}[mode], gd, runtime.NumCPU(), lateBound, quiescence))
	o.Res.Rule = "distinct generated plans (pattern, k, per-producer deadline sequences); every case runs a fresh NewTimedSched in real time"

	ncase, nfar, tmScripts, tmLen := 112, 4, 3, 24
	budget := 60 * time.Second
	if tier != "quick" {
		ncase, nfar, tmScripts, tmLen = 400, 12, 10, 40
		budget = 14 * time.Minute
	}
	var specs []*spec
	for i := 0; i < nfar; i++ {
		specs = append(specs, genSpec(g.Fork(), len(specs), "far", tier))
	}
	for i := 0; i < ncase; i++ {
		pat := patterns[i%(len(patterns)-1)] // everything but "far"
		specs = append(specs, genSpec(g.Fork(), len(specs), pat, tier))
	}
	tg := g.Fork()

	results := make([]*caseRun, len(specs))
	var tms [][]tmLine
	done := make(chan struct{})
	var progress, failed atomic.Int64
	const maxFailed = 3 // every case with a missing task costs the 2 s quiescence wait: stop early
	go func() {
		defer close(done)
		var wg sync.WaitGroup
		sem := make(chan struct{}, 4) // far-future cases mostly wait; a few at a time
		for i, sp := range specs {
			if sp.background {
				wg.Add(1)
				go func() {
					defer wg.Done()
					sem <- struct{}{}
					if failed.Load() < maxFailed {
						results[i] = runCase(sp)
						if results[i].timeout {
							failed.Add(1)
						}
					}
					<-sem
					progress.Add(1)
				}()
			}
		}
		wg.Add(1)
		go func() {
			defer wg.Done()
			for i := 0; i < tmScripts; i++ {
				tms = append(tms, timerScript(tg, mode, tmLen))
			}
		}()
		for i, sp := range specs {
			if !sp.background && failed.Load() < maxFailed {
				results[i] = runCase(sp)
				if results[i].timeout {
					failed.Add(1)
				}
				progress.Add(1)
			}
		}
		wg.Wait()
	}()
	seed := o.Res.Seed
	select {
	case <-done:
	case <-time.After(budget):
		// watchdog: something blocked (Put, Close, or a producer) — report instead of hanging
		o.Violate(hx.Violation{Kind: "sched-hang", Detail: fmt.Sprintf("watchdog: only %d of %d cases finished within %v (chan=%s): Put/Close or a scheduler goroutine blocks",
			progress.Load(), len(specs), budget, mode), Replay: []string{fmt.Sprintf("corr -comp sched -seed %d -tier %s (GODEBUG=%q)", seed, tier, gd)}})
		o.Count("watchdog")
		return
	}
	if failed.Load() >= maxFailed {
		o.Note(fmt.Sprintf("stopped after %d cases with unexecuted tasks; the remaining cases were not run", failed.Load()))
		o.Count("aborted-early")
	}
	for _, c := range results {
		if c != nil {
			emit(o, c, mode, seed, tier)
		}
	}
	for _, script := range tms {
		o.Case("")
		for _, l := range script {
			o.Count("timer-op:" + strings.Fields(l.op)[1] + "=" + l.obs)
			o.Op(l.op, l.obs)
		}
	}
}
