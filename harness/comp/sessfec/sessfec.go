// Package sessfec: component `sessfec` — two REAL sessions (UDPSession) without cipher, each with
// its own FEC ratio, connected by in-memory PacketConns under a synctest bubble with an inert
// scheduler, pumped by hand (structure of comp/sesse2e).
//
// Every operation is logged as an op line and compared with Model/SessFec on top of Model/Kcp and
// Model/Fec (executable GF(2^8) code): return values, EVERY datagram put on the wire (data packets
// with their FEC header and size field, parity packets), the KCPInErrors / FECRecovered deltas, the
// core state, the encoder's (next, shardCount, maxSize) and the decoder's state.  Datagram fates
// (drop / duplicate / reorder / delay) make recovery through parity happen, so that the path
// decode → size check → Input(r[2:sz], IKCP_PACKET_FEC) of kcpInput is exercised and tied.
//
// The encoder's parity/skip decision depends on time.Now(): bubble time only moves when the
// harness sleeps; the gap `time.Now().UnixMilli() − tsLatestPacket` is read (hook) at the start of
// every operation and is part of the op line.
package sessfec

import (
	"bytes"
	"encoding/binary"
	"errors"
	"fmt"
	"net"
	"strings"
	"sync"
	"sync/atomic"
	"testing/synctest"
	"time"

	"github.com/klauspost/reedsolomon"
	kcp "github.com/xtaci/kcp-go/v5"
	"verif/harness/internal/hx"
)

type dgram struct {
	b    []byte
	from net.Addr
}

type memConn struct {
	local  net.Addr
	in     chan dgram
	mu     sync.Mutex
	out    [][]byte
	closed chan struct{}
	once   sync.Once
}

func newMemConn(local net.Addr) *memConn {
	return &memConn{local: local, in: make(chan dgram), closed: make(chan struct{})}
}
func (c *memConn) ReadFrom(p []byte) (int, net.Addr, error) {
	select {
	case d := <-c.in:
		return copy(p, d.b), d.from, nil
	case <-c.closed:
		return 0, nil, net.ErrClosed
	}
}
func (c *memConn) WriteTo(p []byte, _ net.Addr) (int, error) {
	select {
	case <-c.closed:
		return 0, net.ErrClosed
	default:
	}
	c.mu.Lock()
	c.out = append(c.out, append([]byte(nil), p...))
	c.mu.Unlock()
	return len(p), nil
}
func (c *memConn) take() [][]byte {
	c.mu.Lock()
	defer c.mu.Unlock()
	o := c.out
	c.out = nil
	return o
}
func (c *memConn) Close() error                     { c.once.Do(func() { close(c.closed) }); return nil }
func (c *memConn) LocalAddr() net.Addr              { return c.local }
func (c *memConn) SetDeadline(time.Time) error      { return nil }
func (c *memConn) SetReadDeadline(time.Time) error  { return nil }
func (c *memConn) SetWriteDeadline(time.Time) error { return nil }

type callRes struct {
	n   int
	err error
}

type side struct {
	name    string
	s       *kcp.UDPSession
	conn    *memConn
	addr    *net.UDPAddr
	written []byte
	got     []byte
	ds, ps  int
	seen    map[uint32]uint16 // FEC id -> type of what was delivered to this side
}

type world struct {
	o        *hx.Out
	g        *hx.Rng
	a, b     *side
	now      uint32
	ops      []string
	netAB    [][]byte
	netBA    [][]byte
	hist     int
	aborted  bool
	tier     string
	loss     int  // per-datagram drop probability (percent) of this history
	forged   bool // this history's network also injects forged FEC datagrams
	mismatch bool // the two sides have different FEC ratios (incl. FEC on one side only)
	corrupt  bool // the byte stream of this history is already known to be corrupted (reported once)
}

func (w *world) viol(kind, detail string) {
	w.o.Violate(hx.Violation{Kind: kind, Detail: fmt.Sprintf("history %d [fec a=%d/%d b=%d/%d]: %s", w.hist, w.a.ds, w.a.ps, w.b.ds, w.b.ps, detail),
		Replay: append([]string(nil), w.ops...)})
}

func (w *world) state(x *side) kcp.VerifKCPDump {
	var d kcp.VerifKCPDump
	kcp.VerifE2ELocked(x.s, func() { d = kcp.VerifKCPState(kcp.VerifE2ECore(x.s)) })
	return d
}

func scalars(d *kcp.VerifKCPDump) string {
	return fmt.Sprintf("%d %d %d %d %d %d %d %d %d %d %d %d %d %d %d %d %d %d %d %d %d %d %d %d %d %d %d %d %d %d %d %d %d %d",
		d.Conv, d.Mtu, d.Mss, d.State, d.SndUna, d.SndNxt, d.RcvNxt, d.Ssthresh, uint32(d.RxRttvar), uint32(d.RxSrtt),
		d.RxRto, d.RxMinrto, d.SndWnd, d.RcvWnd, d.RmtWnd, d.Cwnd, d.Incr, d.Probe, d.TsProbe, d.ProbeWait, d.Interval,
		d.TsFlush, d.Nodelay, d.Updated, d.DeadLink, uint32(d.Fastresend), uint32(d.Nocwnd), uint32(d.Stream),
		len(d.SndQueue), len(d.RcvQueue), len(d.SndBuf), len(d.RcvBuf), len(d.AckSn), d.BufLen)
}

func showDec(st kcp.VerifFECDecoderState) string {
	var sb strings.Builder
	t := 0
	if st.ShouldTune {
		t = 1
	}
	fmt.Fprintf(&sb, "d=%d p=%d paws=%d tune=%d newest=%d at=%d/%d/%d sets=", st.DataShards, st.ParityShards, st.Paws, t,
		st.NewestShardID, st.TuneHead, st.TuneTail, st.TuneCount)
	if len(st.Sets) == 0 {
		sb.WriteByte('-')
	}
	for i, s := range st.Sets {
		if i > 0 {
			sb.WriteByte(',')
		}
		fmt.Fprintf(&sb, "%d:", s.ID)
		for j := range s.SeqIDs {
			if j > 0 {
				sb.WriteByte('+')
			}
			fmt.Fprintf(&sb, "%d/%d", s.SeqIDs[j], s.Sizes[j])
		}
	}
	return sb.String()
}

func (w *world) tail(x *side) string {
	d := w.state(x)
	enc := "-"
	if e := kcp.VerifSessFecEncoder(x.s); e != nil {
		st := e.State()
		enc = fmt.Sprintf("%d/%d/%d", st.Next, st.ShardCount, st.MaxSize)
	}
	dec := "-"
	if st, ok := kcp.VerifSessFecDecoderState(x.s); ok {
		dec = showDec(st)
	}
	return fmt.Sprintf("bp=%d | %s | enc=%s | %s", len(kcp.VerifE2EBufptr(x.s)), scalars(&d), enc, dec)
}

func showOuts(o [][]byte) string {
	if len(o) == 0 {
		return "none"
	}
	s := make([]string, len(o))
	for i := range o {
		s[i] = hx.Hex(o[i])
	}
	return strings.Join(s, ",")
}

const (
	typeData   = 0xf1
	typeParity = 0xf2
	typeOOB    = 0xf3
)

// settle lets every library goroutine run until blocked and collects what reached the wire.
func (w *world) settle(x *side) [][]byte {
	synctest.Wait()
	outs := x.conn.take()
	for _, p := range outs {
		if x.ds > 0 && len(p) >= 6 {
			switch binary.LittleEndian.Uint16(p[4:]) {
			case typeData:
				w.o.Count("wire:data")
			case typeParity:
				w.o.Count("wire:parity")
			}
		} else {
			w.o.Count("wire:plain")
		}
		if x == w.a {
			w.netAB = append(w.netAB, p)
		} else {
			w.netBA = append(w.netBA, p)
		}
	}
	return outs
}

func (w *world) emit(x *side, op, obs string) {
	line := op
	if x != nil {
		line = x.name + " " + op
	}
	w.ops = append(w.ops, line)
	w.o.Count("op:" + strings.Fields(op)[0])
	w.o.Op(line, obs)
}

func nudge() {
	synctest.Wait()
	time.Sleep(time.Nanosecond)
	synctest.Wait()
}

func isTimeout(err error) bool {
	var ne net.Error
	return errors.As(err, &ne) && ne.Timeout()
}

// gap reads the encoder's time-test operand for an encode call made now, and counts the decision.
func (w *world) gap(x *side) int64 {
	g := kcp.VerifSessFecGapMs(x.s)
	return g
}

func (w *world) countGap(x *side, g int64, outs [][]byte) {
	if x.ds == 0 || len(outs) == 0 {
		return
	}
	if g < 500 {
		w.o.Count("gap:continuous")
	} else {
		w.o.Count("gap:skip-parity-if-group-ends")
	}
}

func (w *world) write(x *side, v [][]byte) {
	hexes := make([]string, len(v))
	total := 0
	for i := range v {
		hexes[i] = hx.Hex(v[i])
		total += len(v[i])
	}
	kcp.VerifSetClock(w.now)
	gp := w.gap(x)
	op := fmt.Sprintf("swrite %s %d %d", strings.Join(hexes, ","), w.now, gp)
	d0 := w.state(x)
	mustBlock := len(d0.SndQueue)+len(d0.SndBuf) >= int(d0.SndWnd)
	done := make(chan callRes, 1)
	x.s.SetWriteDeadline(time.Now().Add(time.Hour))
	go func() {
		n, err := x.s.WriteBuffers(v)
		done <- callRes{n, err}
	}()
	outs := w.settle(x)
	select {
	case r := <-done:
		if mustBlock {
			w.viol("write-admitted-over-window", fmt.Sprintf("%s Write was admitted with %d segments pending, send window %d", x.name, len(d0.SndQueue)+len(d0.SndBuf), d0.SndWnd))
		}
		if r.err != nil || r.n != total {
			w.viol("write-result", fmt.Sprintf("%s Write returned n=%d err=%v for %d bytes", x.name, r.n, r.err, total))
		} else {
			for i := range v {
				x.written = append(x.written, v[i]...)
			}
		}
		x.s.SetWriteDeadline(time.Time{})
		synctest.Wait()
		w.countGap(x, gp, outs)
		w.emit(x, op, fmt.Sprintf("n=%d o=%s %s", r.n, showOuts(outs), w.tail(x)))
		w.o.Count("write:admitted")
	default:
		x.s.SetWriteDeadline(time.Now().Add(-time.Second))
		nudge()
		select {
		case r := <-done:
			if !isTimeout(r.err) || r.n != 0 {
				w.viol("write-cancel", fmt.Sprintf("%s blocked Write returned n=%d err=%v on a past deadline", x.name, r.n, r.err))
			}
		default:
			w.viol("write-stuck", fmt.Sprintf("%s blocked Write did not return on a past deadline", x.name))
			w.aborted = true
		}
		x.s.SetWriteDeadline(time.Time{})
		synctest.Wait()
		w.emit(x, op, "blocked "+w.tail(x))
		w.o.Count("write:blocked")
	}
}

func (w *world) read(x *side, blen int) {
	op := fmt.Sprintf("sread %d", blen)
	buf := make([]byte, blen)
	done := make(chan callRes, 1)
	x.s.SetReadDeadline(time.Now().Add(time.Hour))
	go func() {
		n, err := x.s.Read(buf)
		done <- callRes{n, err}
	}()
	w.settle(x)
	select {
	case r := <-done:
		x.s.SetReadDeadline(time.Time{})
		synctest.Wait()
		if r.err != nil {
			w.viol("read-result", fmt.Sprintf("%s Read returned err=%v", x.name, r.err))
			return
		}
		x.got = append(x.got, buf[:r.n]...)
		w.emit(x, op, fmt.Sprintf("d=%s %s", hx.Hex(buf[:r.n]), w.tail(x)))
		w.o.Count("read:data")
		p := w.peer(x)
		if !bytes.HasPrefix(p.written, x.got) && !w.corrupt {
			w.corrupt = true
			kind := "sess-stream-not-prefix"
			switch {
			case w.mismatch:
				// known finding D10 (C16): a decoder of another ratio reconstructs with the wrong code before it
				// retunes; rows of the systematic Vandermonde matrix sum to 1, so the result parses as a PUSH
				kind = "fec-mismatch-corrupts-sessfec"
			case w.forged:
				// forged shards mixed into a genuine group: payload forgery, outside C01's network (C06's subject)
				kind = "sessfec-forged-corrupts-stream"
			}
			w.o.Count("oracle:" + kind)
			w.viol(kind, fmt.Sprintf("%s has read %d bytes that are not a prefix of the %d bytes %s wrote", x.name, len(x.got), len(p.written), p.name))
		}
	default:
		x.s.SetReadDeadline(time.Now().Add(-time.Second))
		nudge()
		select {
		case r := <-done:
			if !isTimeout(r.err) {
				w.viol("read-cancel", fmt.Sprintf("%s blocked Read returned n=%d err=%v on a past deadline", x.name, r.n, r.err))
			}
		default:
			w.viol("read-stuck", fmt.Sprintf("%s blocked Read did not return on a past deadline", x.name))
			w.aborted = true
		}
		x.s.SetReadDeadline(time.Time{})
		synctest.Wait()
		w.emit(x, op, "blocked "+w.tail(x))
		w.o.Count("read:blocked")
	}
}

func (w *world) peer(x *side) *side {
	if x == w.a {
		return w.b
	}
	return w.a
}

// input hands one datagram to the session's receive path (packetInput, what readLoop calls for every
// datagram it reads) in this goroutine, so that a panic of the real code is recovered and reported.
func (w *world) input(x *side, p []byte) {
	// The auto-tune window must stay a strict weak order for the sort inside FindPeriod: with two
	// samples of equal id and different type (or ids 2^31 apart) the result legitimately depends on
	// the sorting algorithm (component autotune checks only panic-freedom there).  The network of this
	// component therefore drops a datagram whose FEC id was already delivered with the other type.
	if len(p) >= 12 {
		if t := binary.LittleEndian.Uint16(p[4:]); t == typeData || t == typeParity {
			seq := binary.LittleEndian.Uint32(p)
			if t0, ok := x.seen[seq]; ok && t0 != t {
				w.o.Count("fate:drop-conflicting-fec-id")
				return
			}
			x.seen[seq] = t
		}
	}
	kcp.VerifSetClock(w.now)
	gp := w.gap(x)
	op := fmt.Sprintf("sinput %s %d %d", hx.Hex(p), w.now, gp)
	err0 := atomic.LoadUint64(&kcp.DefaultSnmp.KCPInErrors)
	rec0 := atomic.LoadUint64(&kcp.DefaultSnmp.FECRecovered)
	var pv any
	func() {
		defer func() { pv = recover() }()
		kcp.VerifE2EInput(x.s, append([]byte(nil), p...))
	}()
	if pv != nil {
		site := fmt.Sprint(pv)
		w.ops = append(w.ops, x.name+" "+op)
		w.o.Count("op:sinput")
		w.o.Count("panic")
		w.o.Op(x.name+" "+op, "panic")
		w.viol("sessfec-panic", fmt.Sprintf("%s.packetInput panicked on a %d-byte datagram: %s", x.name, len(p), trunc(site)))
		w.aborted = true
		return
	}
	outs := w.settle(x)
	errs := atomic.LoadUint64(&kcp.DefaultSnmp.KCPInErrors) - err0
	rec := atomic.LoadUint64(&kcp.DefaultSnmp.FECRecovered) - rec0
	if len(p) >= 6 {
		switch binary.LittleEndian.Uint16(p[4:]) {
		case typeData:
			w.o.Count("input:fec-data")
		case typeParity:
			w.o.Count("input:fec-parity")
		case typeOOB:
			w.o.Count("input:oob")
		default:
			w.o.Count("input:plain")
		}
	} else {
		w.o.Count("input:tiny")
	}
	if rec > 0 {
		w.o.Count("input:decode-recovered")
		w.o.CountN("recovered-shards-fed-to-Input(regular=false)", int(rec))
	}
	if errs > 0 {
		w.o.CountN("KCPInErrors", int(errs))
	}
	w.countGap(x, gp, outs)
	w.emit(x, op, fmt.Sprintf("o=%s err=%d rec=%d %s", showOuts(outs), errs, rec, w.tail(x)))
}

func trunc(s string) string {
	if len(s) > 120 {
		return s[:120] + "…"
	}
	return s
}

// ---------------------------------------------------------------------------------------------
// forged FEC traffic (the network adversary of C05/C07: arbitrary datagrams)

// kcpSeg builds one KCP segment (24-byte header + data).
func kcpSeg(conv uint32, cmd, frg byte, wnd uint16, ts, sn, una uint32, data []byte) []byte {
	b := make([]byte, 24+len(data))
	binary.LittleEndian.PutUint32(b, conv)
	b[4], b[5] = cmd, frg
	binary.LittleEndian.PutUint16(b[6:], wnd)
	binary.LittleEndian.PutUint32(b[8:], ts)
	binary.LittleEndian.PutUint32(b[12:], sn)
	binary.LittleEndian.PutUint32(b[16:], una)
	binary.LittleEndian.PutUint32(b[20:], uint32(len(data)))
	copy(b[24:], data)
	return b
}

// harmless content for a forged shard: control segments of the right conversation (they change
// probe flags / ack state, visibly, but cannot inject stream bytes), a PUSH of a foreign
// conversation, or noise.
func (w *world) forgedContent(x *side) []byte {
	g := w.g
	d := w.state(x)
	switch g.Intn(6) {
	case 0:
		return kcpSeg(d.Conv, 83, 0, uint16(g.Intn(64)), g.U32(), 0, d.SndUna, nil) // WASK
	case 1:
		return kcpSeg(d.Conv, 84, 0, uint16(g.Intn(64)), g.U32(), 0, d.SndUna, nil) // WINS
	case 2:
		return kcpSeg(d.Conv, 82, 0, uint16(1+g.Intn(64)), w.now, d.SndUna+uint32(g.Intn(3)), d.SndUna, nil) // ACK
	case 3:
		return append(kcpSeg(d.Conv, 83, 0, 7, 0, 0, d.SndUna, nil), kcpSeg(d.Conv, 84, 0, 9, 0, 0, d.SndUna, nil)...)
	case 4:
		return kcpSeg(d.Conv+1, 81, 0, 32, 0, d.RcvNxt, 0, g.Bytes(1+g.Intn(40))) // foreign conversation
	default:
		return g.Bytes(g.Intn(60))
	}
}

func fecPkt(seq uint32, typ uint16, body []byte) []byte {
	b := make([]byte, 6+len(body))
	binary.LittleEndian.PutUint32(b, seq)
	binary.LittleEndian.PutUint16(b[4:], typ)
	copy(b[6:], body)
	return b
}

// forge delivers forged FEC datagrams to x.
func (w *world) forge(x *side) {
	g := w.g
	d, p := 1, 1 // the ratio of the lazily created decoder
	newest := uint32(0)
	if st, ok := kcp.VerifSessFecDecoderState(x.s); ok {
		d, p, newest = st.DataShards, st.ParityShards, st.NewestShardID
	}
	n := uint32(d + p)
	gi := newest + uint32([]int{0, 1, 1, 2, 3, 7}[g.Intn(6)])
	if g.Chance(15) {
		gi = newest + uint32(g.Intn(400)) // far ahead, still well inside 2^31 of everything else
	}
	base := gi * n
	switch g.Intn(8) {
	case 0: // all-zero parity (on a 1/1 decoder the reconstructed shard is all zero: size field 0)
		w.o.Count("forge:zero-parity")
		k := g.Intn(p)
		w.input(x, fecPkt(base+uint32(d+k), typeParity, make([]byte, []int{0, 1, 2, 3, 26, 60}[g.Intn(6)])))
	case 1: // OOB frame
		w.o.Count("forge:oob")
		body := make([]byte, 2+4+g.Intn(20))
		binary.LittleEndian.PutUint16(body, uint16(len(body)))
		w.input(x, fecPkt(0xffffffff, typeOOB, body))
	case 2: // a lone data frame whose size field disagrees with the datagram
		w.o.Count("forge:data-bad-size")
		c := w.forgedContent(x)
		body := make([]byte, 2+len(c))
		binary.LittleEndian.PutUint16(body, uint16([]int{0, 1, 2, len(body) + 1, 65535, len(body) - 1}[g.Intn(6)]))
		copy(body[2:], c)
		w.input(x, fecPkt(base+uint32(g.Intn(d)), typeData, body))
	case 3: // too short for anything
		w.o.Count("forge:tiny")
		w.input(x, g.Bytes(g.Intn(12)))
	default: // a whole forged group with one data shard withheld: the decoder reconstructs it
		w.o.Count("forge:group")
		enc, err := reedsolomon.New(d, p)
		if err != nil {
			return
		}
		victim := g.Intn(d)
		mode := g.Intn(6)
		bodies := make([][]byte, d)
		maxLen := 0
		for i := range bodies {
			c := w.forgedContent(x)
			if i == victim && mode == 4 && len(c) < 90 { // the victim is the longest shard of its group: sz == len(r)
				c = append(c, kcpSeg(w.state(x).Conv, 83, 0, 3, 0, 0, 0, nil)...)
				c = append(c, kcpSeg(w.state(x).Conv, 84, 0, 3, 0, 0, 0, nil)...)
				c = append(c, kcpSeg(w.state(x).Conv, 83, 0, 3, 0, 0, 0, nil)...)
				c = append(c, kcpSeg(w.state(x).Conv, 84, 0, 3, 0, 0, 0, nil)...)
			}
			bodies[i] = make([]byte, 2+len(c))
			binary.LittleEndian.PutUint16(bodies[i], uint16(len(bodies[i])))
			copy(bodies[i][2:], c)
			maxLen = max(maxLen, len(bodies[i]))
		}
		if mode == 5 && d > 1 { // the victim is at least a KCP header shorter than the longest: zero padding ≥ 24 behind sz
			for i := range bodies {
				if i != victim && len(bodies[i]) < len(bodies[victim])+30 {
					bodies[i] = append(bodies[i], make([]byte, len(bodies[victim])+30-len(bodies[i]))...)
					maxLen = max(maxLen, len(bodies[i]))
				}
			}
		}
		switch mode { // the size field the reconstructed shard will carry
		case 0:
			binary.LittleEndian.PutUint16(bodies[victim], 0)
			w.o.Count("forge:victim-size-0")
		case 1:
			binary.LittleEndian.PutUint16(bodies[victim], 1)
			w.o.Count("forge:victim-size-1")
		case 2:
			binary.LittleEndian.PutUint16(bodies[victim], uint16(maxLen+1+g.Intn(3)))
			w.o.Count("forge:victim-size-beyond")
		case 3:
			binary.LittleEndian.PutUint16(bodies[victim], 2)
			w.o.Count("forge:victim-size-2")
		case 4:
			w.o.Count("forge:victim-longest")
		default:
			w.o.Count("forge:victim-short")
		}
		shards := make([][]byte, d+p)
		for i := 0; i < d; i++ {
			shards[i] = make([]byte, maxLen)
			copy(shards[i], bodies[i])
		}
		for i := d; i < d+p; i++ {
			shards[i] = make([]byte, maxLen)
		}
		if maxLen == 0 || enc.Encode(shards) != nil {
			return
		}
		var pk [][]byte
		for i := 0; i < d; i++ {
			if i != victim {
				pk = append(pk, fecPkt(base+uint32(i), typeData, bodies[i]))
			}
		}
		for k := 0; k < p; k++ {
			pk = append(pk, fecPkt(base+uint32(d+k), typeParity, shards[d+k]))
		}
		for i := len(pk) - 1; i > 0; i-- { // shuffle
			j := g.Intn(i + 1)
			pk[i], pk[j] = pk[j], pk[i]
		}
		for _, q := range pk {
			if w.aborted {
				return
			}
			w.input(x, q)
		}
	}
}

func (w *world) pump(x *side) uint32 {
	kcp.VerifSetClock(w.now)
	gp := w.gap(x)
	op := fmt.Sprintf("supdate %d %d", w.now, gp)
	iv := kcp.VerifE2EPump(x.s)
	outs := w.settle(x)
	w.countGap(x, gp, outs)
	w.emit(x, op, fmt.Sprintf("r=%d o=%s %s", iv, showOuts(outs), w.tail(x)))
	return iv
}

func (w *world) setting(x *side, op string, f func() string) {
	r := f()
	synctest.Wait()
	w.emit(x, op, r+" "+w.tail(x))
}

func (w *world) payload(x *side, base, n int) []byte {
	b := make([]byte, n)
	for i := range b {
		v := uint32(base+i)*2654435761 + uint32(x.name[0])
		b[i] = byte(v >> 24)
	}
	return b
}

// advance moves both clocks: the package's 32-bit clock (re-set before every op) and bubble time
// (which the FEC encoder's time test reads).
func (w *world) advance(ms uint32) {
	w.now += ms
	if ms > 0 {
		time.Sleep(time.Duration(ms) * time.Millisecond)
		synctest.Wait()
	}
	w.o.Count("time-step")
}

var fecs = [][2]int{{1, 1}, {2, 1}, {3, 2}, {10, 3}}

func (w *world) history(fa, fb [2]int) {
	g := w.g
	w.hist++
	w.ops = w.ops[:0]
	w.netAB, w.netBA = nil, nil
	w.aborted = false
	conv := g.U32()
	aAddr := &net.UDPAddr{IP: net.IPv4(10, 0, 0, 1), Port: 1000}
	bAddr := &net.UDPAddr{IP: net.IPv4(10, 0, 0, 2), Port: 2000}
	ca, cb := newMemConn(aAddr), newMemConn(bAddr)
	sa, _ := kcp.NewConn3(conv, bAddr, nil, fa[0], fa[1], ca)
	sb, _ := kcp.NewConn3(conv, aAddr, nil, fb[0], fb[1], cb)
	w.a = &side{name: "a", s: sa, conn: ca, addr: aAddr, ds: fa[0], ps: fa[1], seen: map[uint32]uint16{}}
	w.b = &side{name: "b", s: sb, conn: cb, addr: bAddr, ds: fb[0], ps: fb[1], seen: map[uint32]uint16{}}
	w.loss = []int{5, 12, 20, 30}[g.Intn(4)]
	w.forged = g.Chance(50)
	w.mismatch = fa != fb
	w.corrupt = false
	synctest.Wait()
	w.o.Count(fmt.Sprintf("config:a=%d/%d,b=%d/%d", fa[0], fa[1], fb[0], fb[1]))
	first := fmt.Sprintf("new %d %d %d %d %d", conv, fa[0], fa[1], fb[0], fb[1])
	w.ops = append(w.ops, first)
	w.o.Op(first, "ok a: "+w.tail(w.a)+" b: "+w.tail(w.b))
	w.now = []uint32{0, 1 << 31, 0xFFFFFFFF}[g.Intn(3)] - uint32(g.Intn(2000))
	if g.Chance(30) {
		w.now = g.U32()
	}
	kcp.VerifSetClock(w.now)
	for _, x := range []*side{w.a, w.b} {
		x := x
		wd, nd, st := g.Chance(30), g.Chance(40), g.Chance(50)
		w.setting(x, fmt.Sprintf("opt %d %d %d", b2i(wd), b2i(nd), b2i(st)), func() string {
			x.s.SetWriteDelay(wd)
			x.s.SetACKNoDelay(nd)
			x.s.SetStreamMode(st)
			return "ok"
		})
		if g.Chance(85) {
			a1, a2, a3, a4 := g.Intn(2), []int{10, 20, 40, 100}[g.Intn(4)], g.Intn(3), g.Intn(2)
			if g.Chance(60) {
				a4 = 1 // no congestion window: several datagrams per flush, groups fill quickly
			}
			w.setting(x, fmt.Sprintf("nodelay %d %d %d %d", a1, a2, a3, a4), func() string { x.s.SetNoDelay(a1, a2, a3, a4); return "ok" })
		}
		if g.Chance(80) {
			ws := []int{2, 4, 8, 32, 128}
			s1, r1 := ws[g.Intn(len(ws))], ws[g.Intn(len(ws))]
			w.setting(x, fmt.Sprintf("wndsize %d %d", s1, r1), func() string { x.s.SetWindowSize(s1, r1); return "ok" })
		}
		if g.Chance(50) {
			m := []int{100, 300, 576, 1200, 1400, 1500, 1600}[g.Intn(7)]
			w.setting(x, fmt.Sprintf("setmtu %d", m), func() string {
				ok := x.s.SetMtu(m)
				return fmt.Sprintf("r=%v", ok)
			})
		}
	}
	steps := 60 + g.Intn(100)
	if w.tier == "thorough" {
		steps = 100 + g.Intn(300)
	}
	for i := 0; i < steps && !w.aborted; i++ {
		x := w.a
		if g.Chance(35) {
			x = w.b
		}
		r := g.Intn(100)
		switch {
		case r < 24:
			d := w.state(x)
			mss := int(d.Mss)
			nv := 1
			if g.Chance(15) {
				nv = 2 + g.Intn(2)
			}
			var v [][]byte
			off := 0
			for j := 0; j < nv; j++ {
				n := []int{1, 10, mss - 1, mss, mss + 1, 2*mss + 7, 1 + g.Intn(3*mss)}[g.Intn(7)]
				n = max(1, min(n, 5000))
				v = append(v, w.payload(x, len(x.written)+off, n))
				off += n
			}
			w.write(x, v)
		case r < 38:
			w.pump(x)
		case r < 74:
			toB := g.Chance(55)
			q, dst := &w.netAB, w.b
			if !toB {
				q, dst = &w.netBA, w.a
			}
			if len(*q) == 0 {
				continue
			}
			idx := 0
			if g.Chance(25) {
				idx = g.Intn(len(*q))
				w.o.Count("fate:reorder")
			}
			p := (*q)[idx]
			fate := g.Intn(100)
			switch {
			case fate < w.loss:
				*q = append((*q)[:idx], (*q)[idx+1:]...)
				w.o.Count("fate:drop")
			case fate < w.loss+6:
				w.o.Count("fate:dup")
				w.input(dst, p)
			case fate < w.loss+10:
				w.o.Count("fate:delay")
			default:
				*q = append((*q)[:idx], (*q)[idx+1:]...)
				w.o.Count("fate:deliver")
				w.input(dst, p)
			}
		case r < 86:
			w.read(x, []int{1, 7, 100, 1500, 4096, 65536}[g.Intn(6)])
		case r < 91:
			if w.forged {
				w.forge(x)
			} else {
				w.read(x, 1500)
			}
		default:
			d := w.state(x)
			st := []uint32{0, 1, 5, d.Interval, d.Interval, d.RxRto, 499, 500, 700, 5000}[g.Intn(10)]
			w.advance(st)
		}
	}
	if !w.aborted {
		w.drain()
	}
	sa.Close()
	sb.Close()
	ca.Close()
	cb.Close()
	synctest.Wait()
	key := hx.HashKey(strings.Join(w.ops, "\n"))
	w.o.Case(key)
}

// drain: fair network except for the history's loss rate on data packets only (so that parity keeps
// recovering), the readers keep reading; at the end both byte streams must be complete.
func (w *world) drain() {
	start := w.now
	for round := 0; round < 3000 && w.now-start < 3600000 && !w.aborted; round++ {
		da, db := w.state(w.a), w.state(w.b)
		if len(da.SndQueue)+len(da.SndBuf)+len(db.SndQueue)+len(db.SndBuf) == 0 && len(w.netAB)+len(w.netBA) == 0 {
			w.readAll(w.a)
			w.readAll(w.b)
			for _, x := range []*side{w.a, w.b} {
				p := w.peer(x)
				// (forged ACKs may have acknowledged data that was lost: completeness is only claimed without forgery)
				if !w.forged && !w.mismatch && !bytes.Equal(x.got, p.written) {
					w.viol("sess-drain-incomplete", fmt.Sprintf("%s read %d bytes, %s wrote %d, with both backlogs at zero", x.name, len(x.got), p.name, len(p.written)))
				}
			}
			w.o.CountN("drain-rounds", round)
			return
		}
		for _, dir := range []struct {
			q   *[][]byte
			dst *side
		}{{&w.netAB, w.b}, {&w.netBA, w.a}} {
			for len(*dir.q) > 0 && !w.aborted {
				p := (*dir.q)[0]
				*dir.q = (*dir.q)[1:]
				src := w.peer(dir.dst)
				if round < 40 && src.ds > 0 && len(p) >= 6 && binary.LittleEndian.Uint16(p[4:]) == typeData && w.g.Chance(w.loss) {
					w.o.Count("fate:drain-drop-data")
					continue
				}
				w.input(dir.dst, p)
				w.readAll(dir.dst)
			}
		}
		ia, ib := w.pump(w.a), w.pump(w.b)
		step := max(min(ia, ib), 1)
		if round > 100 {
			step = min(step*8, 5000)
		}
		w.advance(step)
	}
	if !w.aborted {
		w.o.Count("drain-bounded-out")
	}
}

func (w *world) readAll(x *side) {
	for i := 0; i < 100000 && !w.aborted; i++ {
		var ps int
		kcp.VerifE2ELocked(x.s, func() { ps = kcp.VerifE2ECore(x.s).PeekSize() })
		if ps <= 0 && len(kcp.VerifE2EBufptr(x.s)) == 0 {
			return
		}
		w.read(x, 65536)
	}
}

func b2i(b bool) int {
	if b {
		return 1
	}
	return 0
}

// Run is the component entry point.
func Run(o *hx.Out, g *hx.Rng, tier string) {
	o.Res.Rule = "a case is one history of two real sessions without cipher, FEC ratio per side from {1/1, 2/1, 3/2, 10/3} (one history in six: FEC off on one side — lazy 1/1 decoder / plain packets into an FEC session): settings, Write/Read incl. blocking, manual update, per-datagram fates (drop/dup/reorder/delay), time steps that move both clocks, in half of the histories forged FEC datagrams (all-zero parity, OOB, data frames with a wrong size field, tiny datagrams, whole forged groups whose withheld shard is reconstructed with size field 0 / 1 / 2 / beyond the shard / exactly the shard length / ≥ 24 bytes before the end), a drain that keeps losing data packets; panics of the real code are recovered and reported (sessfec-panic); every op is compared with the Lean model SessFec (wire datagrams incl. parity, counters, core, encoder and decoder state); distinct = distinct op sequences (hash)"
	g = g.Fork()
	kcp.SystemTimedSched = &kcp.TimedSched{} // inert: no goroutines; Put only appends
	w := &world{o: o, g: g, tier: tier}
	n := 300
	if tier == "thorough" {
		n = 1200
	}
	for i := 0; i < n; i++ {
		f := fecs[i%len(fecs)]
		fa, fb := f, f
		switch i % 6 {
		case 4:
			fb = [2]int{0, 0} // b: no encoder, decoder created lazily with 1/1
		case 5:
			fa = fecs[(i/6)%len(fecs)]
			fb = fecs[(i/6+1)%len(fecs)] // different ratios: the decoders must retune
		}
		w.history(fa, fb)
	}
}
